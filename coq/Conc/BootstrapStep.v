(* C19 — every step of the guarded protocol preserves the invariant. *)
From Coq Require Import List Arith Bool Lia.
From SC Require Import Conc.BootstrapModel Conc.BootstrapSpec Conc.BootstrapLemmas Conc.BootstrapInv.
Import ListNotations.

Section Step.
  Variable ct : table.
  Hypothesis wf : wf_table ct.
  Notation Inv := (Inv ct).
  Notation tfact := (tfact ct).
  Notation class_ok := (class_ok ct).
  Notation cur_ok := (cur_ok ct).
  Notation complete := (complete ct).
  Notation quiet := (quiet ct).
  Notation untouched := (untouched ct).

  Lemma complete_quiet c k : complete c k -> quiet c k.
  Proof. intro; right; auto. Qed.

  Lemma obs_same t t' :
    t_tgt t' = t_tgt t -> t_inst t' = t_inst t -> t_obs t' = t_obs t ->
    (forall o, t_obs t = Some o -> good_obs ct t o) ->
    forall o, t_obs t' = Some o -> good_obs ct t' o.
  Proof.
    intros H1 H2 H3 H o Ho. rewrite H3 in Ho. destruct (H o Ho) as [A [B C]].
    unfold good_obs. rewrite H1, H2. auto.
  Qed.

  (* the placeholder lookup of class t_cur returns the published value *)
  Lemma ret_inv s i t :
    Inv s -> nth_error (threads s) i = Some t ->
    t_ph t = Test \/ t_ph t = Reread ->
    pub (getc (t_cur t) (classes s)) <> None ->
    Inv (mkS (classes s) (lock s) (set_nth i (ret t (pub (getc (t_cur t) (classes s)))) (threads s))).
  Proof.
    intros HI Hi Hph Hpub. pose proof HI as [HL [HC [HT HK]]].
    destruct (HT i t Hi) as [[Hle [Hlt [Hob Hf]]] Hnh].
    assert (Hin : inner (t_ph t) = 0) by (destruct Hph as [-> | ->]; reflexivity).
    assert (Hq : cur_ok t (getc (t_cur t) (classes s)) -> quiet (t_cur t) (getc (t_cur t) (classes s))).
    { unfold BootstrapInv.cur_ok. destruct Hph as [-> | ->]; auto. apply complete_quiet. }
    unfold ret. destruct (Nat.ltb (t_cur t) (t_tgt t)) eqn:El.
    - apply Nat.ltb_lt in El.
      assert (Hd : 1 <= depth t) by (unfold depth; lia).
      destruct (must_hold ct s i t HI Hi Hd) as [Hlock Hcl].
      assert (Hcc : forall z, z <= t_cur t -> complete z (getc z (classes s))).
      { apply complete_down; auto; [lia|]. apply quiet_pub_complete; auto.
        apply Hq. apply (Hcl (t_cur t)); auto. lia. }
      apply inv_nw with (t := t); auto.
      + split; [simpl; lia|]. split; [simpl; auto|]. split; [apply (obs_same t); auto|]. simpl. exact I.
      + unfold depth; simpl. rewrite Hin. lia.
      + intros _ y Hy. simpl. destruct (Hcl y Hy) as [A [B [C D]]].
        split; [|split; [|split]].
        * intro L. split; [apply complete_quiet|intros _]; apply Hcc; lia.
        * intros ->. unfold BootstrapInv.cur_ok; simpl. apply C. lia.
        * intro L. apply C. lia.
        * exact D.
    - apply Nat.ltb_ge in El. assert (Ec : t_cur t = t_tgt t) by lia.
      destruct (t_inst t) eqn:Einst.
      + apply inv_nw with (t := t); auto.
        * split; [simpl; lia|]. split; [simpl; auto|]. split; [apply (obs_same t); auto|]. simpl.
          rewrite <- Ec. auto.
        * unfold depth; simpl. rewrite Hin. lia.
        * intro Hcl. eapply class_ok_ph; eauto. simpl. discriminate.
      + destruct (inv_sound ct s (t_cur t) HI) as [Hs _]; [lia|].
        destruct (pub (getc (t_cur t) (classes s))) as [m|] eqn:Ep; [|congruence].
        apply inv_nw with (t := t); auto.
        * split; [simpl; lia|]. split; [simpl; auto|].
          split; [|simpl; split; [auto|split; [discriminate|rewrite <- Ec, Ep; discriminate]]].
          simpl. intros o Ho. inversion Ho; subst. unfold good_obs; simpl.
          split; [rewrite (Hs m eq_refl), Ec; reflexivity|]. split; [reflexivity|discriminate].
        * unfold depth; simpl. rewrite Hin. lia.
        * intro Hcl. eapply class_ok_ph; eauto. simpl. discriminate.
  Qed.
  Ltac tf t Htf :=
    let Hle := fresh "Hle" in let Hlt := fresh "Hlt" in let Hob := fresh "Hob" in let Hf := fresh "Hf" in
    pose proof Htf as [Hle [Hlt [Hob Hf]]];
    split; [simpl; try lia; auto|split; [simpl; try lia; auto|split; [apply (obs_same t); auto|simpl]]].

  Definition Step (s : state) (i : nat) (t : thread) : Prop :=
    forall cl' l' t' e, tstep true ct i (classes s) (lock s) t = Some (cl', l', t', e) ->
      Inv (mkS cl' l' (set_nth i t' (threads s))).

  Lemma step_Test s i t :
    Inv s -> nth_error (threads s) i = Some t -> t_ph t = Test -> Step s i t.
  Proof.
    intros HI Hi Hp cl' l' t' e H. unfold tstep in H. rewrite Hp in H.
    pose proof HI as [HL [HC [HT HK]]]. destruct (HT i t Hi) as [Htf Hnh].
    match type of H with (if ?b then _ else _) = _ => destruct b eqn:Eh end;
      inversion H; subst; clear H.
    - apply inv_nw with (t := t); auto.
      + tf t Htf. exact I.
      + unfold depth; simpl. rewrite Hp. reflexivity.
      + intro Hc. eapply class_ok_ph; eauto; simpl; [discriminate|].
        unfold BootstrapInv.cur_ok; simpl. rewrite Hp. auto.
    - apply ret_inv; auto.
      destruct Htf as [Hle [Hlt _]].
      destruct (inv_sound ct s (t_cur t) HI) as [_ Hs]; [lia|].
      destruct (tests_fields t).
      + apply negb_false_iff in Eh. rewrite (Hs Eh). discriminate.
      + destruct (pub (getc (t_cur t) (classes s))); discriminate.
  Qed.

  Lemma step_Recheck s i t :
    Inv s -> nth_error (threads s) i = Some t -> t_ph t = Recheck -> Step s i t.
  Proof.
    intros HI Hi Hp cl' l' t' e H. unfold tstep in H. rewrite Hp in H.
    pose proof HI as [HL [HC [HT HK]]]. destruct (HT i t Hi) as [Htf Hnh].
    assert (Hd : 1 <= depth t) by (unfold depth; rewrite Hp; simpl; lia).
    destruct (must_hold ct s i t HI Hi Hd) as [Hlock Hcl].
    pose proof Htf as [Hle [Hlt _]].
    assert (Hq : quiet (t_cur t) (getc (t_cur t) (classes s))).
    { destruct (Hcl (t_cur t)) as [_ [B _]]; [lia|]. specialize (B eq_refl).
      unfold BootstrapInv.cur_ok in B. rewrite Hp in B. exact B. }
    destruct (pub (getc (t_cur t) (classes s))) eqn:Ep; inversion H; subst; clear H.
    - assert (Hcc : forall z, z <= t_cur t -> complete z (getc z (classes s))).
      { apply complete_down; auto; [lia|]. apply quiet_pub_complete; auto. congruence. }
      apply inv_nw with (t := t); auto.
      + tf t Htf. exact I.
      + unfold depth; simpl. rewrite Hp. reflexivity.
      + intros _ y Hy. simpl. destruct (Hcl y Hy) as [A [B [C D]]].
        split; [|split; [|split]]; auto.
        * intro L. split; [apply complete_quiet|intros _]; apply Hcc; lia.
        * intros ->. unfold BootstrapInv.cur_ok; simpl. apply Hcc; lia.
    - apply inv_nw with (t := t); auto.
      + tf t Htf. exact I.
      + unfold depth; simpl. rewrite Hp. reflexivity.
      + intro Hc. eapply class_ok_ph; eauto; simpl; [discriminate|].
        intros _. unfold BootstrapInv.cur_ok; simpl.
        destruct Hq as [Hq|[Hq _]]; auto. congruence.
  Qed.

  Lemma step_Enter s i t :
    Inv s -> nth_error (threads s) i = Some t -> t_ph t = Enter -> Step s i t.
  Proof.
    intros HI Hi Hp cl' l' t' e H. unfold tstep in H. rewrite Hp in H.
    pose proof HI as [HL [HC [HT HK]]]. destruct (HT i t Hi) as [Htf Hnh].
    assert (Hd : 1 <= depth t) by (unfold depth; rewrite Hp; simpl; lia).
    destruct (must_hold ct s i t HI Hi Hd) as [Hlock Hcl].
    pose proof Htf as [Hle [Hlt _]].
    destruct (t_cur t) as [|p] eqn:Ec; inversion H; subst; clear H.
    - apply inv_nw with (t := t); auto.
      + tf t Htf. exact I.
      + unfold depth; simpl. rewrite Hp, Ec. reflexivity.
      + intros _ y Hy. simpl. destruct (Hcl y Hy) as [A [B [C D]]]. rewrite Ec in *.
        split; [intro; lia|split; [|split]]; auto.
        intros ->. specialize (B eq_refl). unfold BootstrapInv.cur_ok in *; simpl.
        rewrite Hp, Ec in B. rewrite Ec. exact B.
    - apply inv_nw with (t := t); auto.
      + tf t Htf. exact I.
      + unfold depth; simpl. rewrite Hp, Ec. simpl. lia.
      + intros _ y Hy. simpl. destruct (Hcl y Hy) as [A [B [C D]]]. rewrite Ec in *.
        split; [|split; [|split]]; auto.
        * intro L. split; [apply A; lia|discriminate].
        * intros ->. unfold BootstrapInv.cur_ok; simpl. apply A; lia.
        * intro L. destruct (Nat.eq_dec y (S p)) as [->|E].
          -- specialize (B eq_refl). unfold BootstrapInv.cur_ok in B. rewrite Hp, Ec in B. exact B.
          -- apply C; lia.
  Qed.
  Lemma seen_decl c n x0 : is_decl (seen_seq ct c n x0) = is_decl x0.
  Proof. destruct x0; simpl; auto. apply anc_not_decl. Qed.

  Lemma seen_decl_eq c n x0 : is_decl x0 = true -> seen_seq ct c n x0 = x0.
  Proof. destruct x0; simpl; auto; discriminate. Qed.

  (* facts available to the lock holder while it is inside the body of class t_cur *)
  Lemma holder_facts s i t :
    Inv s -> nth_error (threads s) i = Some t -> 1 <= inner (t_ph t) ->
    lock s = Some (i, depth t) /\ class_ok t (classes s) /\
    t_cur t <= t_tgt t /\ t_tgt t < length ct /\ cur_ok t (getc (t_cur t) (classes s)).
  Proof.
    intros HI Hi Hin. pose proof HI as [HL [HC [HT HK]]]. destruct (HT i t Hi) as [[[Hle _] [Hlt _]] _].
    assert (Hd : 1 <= depth t) by (unfold depth; lia).
    destruct (must_hold ct s i t HI Hi Hd) as [Hlock Hcl].
    split; [auto|split; [auto|split; [auto|split; [auto|]]]].
    destruct (Hcl (t_cur t)) as [_ [B _]]; [lia|]. auto.
  Qed.

  Lemma parents_final s t :
    class_ok t (classes s) -> needs_parent (t_ph t) = true -> t_cur t < length ct ->
    forall y, y < t_cur t -> complete y (getc y (classes s)).
  Proof.
    intros Hcl Hn Hlt y Hy. destruct (Hcl y) as [A _]; [lia|]. apply A; auto.
  Qed.

  Lemma step_Inherit s i t :
    Inv s -> nth_error (threads s) i = Some t -> t_ph t = Inherit -> Step s i t.
  Proof.
    intros HI Hi Hp cl' l' t' e H. unfold tstep in H. rewrite Hp in H.
    inversion H; subst; clear H.
    pose proof HI as [HL [HC [HT HK]]]. destruct (HT i t Hi) as [Htf Hnh].
    destruct (holder_facts s i t HI Hi) as [Hlock [Hcl [Hle [Hlt Hcur]]]]; [rewrite Hp; simpl; lia|].
    assert (Hpar := parents_final s t Hcl). rewrite Hp in Hpar. specialize (Hpar eq_refl).
    apply inv_nw with (t := t); auto.
    - tf t Htf. exact I.
    - unfold depth; simpl. rewrite Hp. reflexivity.
    - intros _. eapply class_ok_ph; eauto; simpl; [rewrite Hp; auto|].
      unfold BootstrapInv.cur_ok; simpl. rewrite Hp. intro Hu. rewrite Hu.
      split; [|reflexivity]. rewrite part_meta_0.
      unfold inherit_meta, inh_meta. destruct (t_cur t) as [|p] eqn:Ec; [reflexivity|].
      destruct (Hpar ltac:(lia) p) as [Hpub _]; [lia|]. rewrite Hpub. reflexivity.
  Qed.

  Lemma step_Body s i t j acc :
    Inv s -> nth_error (threads s) i = Some t -> t_ph t = Body j acc -> Step s i t.
  Proof.
    intros HI Hi Hp cl' l' t' e H. unfold tstep in H. rewrite Hp in H.
    pose proof HI as [HL [HC [HT HK]]]. destruct (HT i t Hi) as [Htf Hnh].
    destruct (holder_facts s i t HI Hi) as [Hlock [Hcl [Hle [Hlt Hcur]]]]; [rewrite Hp; simpl; lia|].
    assert (Hpar := parents_final s t Hcl). rewrite Hp in Hpar. specialize (Hpar eq_refl).
    unfold BootstrapInv.cur_ok in Hcur. rewrite Hp in Hcur. destruct Hcur as [Hacc Hk].
    assert (ND : NoDup (map fst (decls ct (t_cur t)))) by (apply wf, getd_in; lia).
    fold (decls ct (t_cur t)) in H.
    destruct (nth_error (decls ct (t_cur t)) j) as [[n x0]|] eqn:En.
    - assert (Hx : lookup (classes s) (t_cur t) n = seen_seq ct (t_cur t) n x0).
      { apply lookup_own.
        - rewrite Hk. simpl. apply find_cell_part; auto.
        - intros y Hy. destruct (Hpar ltac:(lia) y Hy) as [_ [_ [Hdd _]]]; exact Hdd. }
      rewrite Hx, seen_decl in H.
      assert (Hacc' : mkM (upd (m_attrs acc) n (spec_of (t_cur t) (seen_seq ct (t_cur t) n x0))) (m_key acc) (m_frozen acc)
                      = part_meta ct (t_cur t) (S j)).
      { rewrite Hacc. unfold part_meta. cbn [m_attrs m_key m_frozen]. fold (decls ct (t_cur t)).
        rewrite (build_snoc ct (t_cur t) _ j n x0) by auto. reflexivity. }
      rewrite Hacc' in H.
      destruct (is_decl x0) eqn:Ed; inversion H; subst; clear H.
      + apply inv_nw with (t := t); auto.
        * tf t Htf. exact I.
        * unfold depth; simpl. rewrite Hp. reflexivity.
        * intros _. eapply class_ok_ph; eauto; simpl; [rewrite Hp; auto|].
          intros _. unfold BootstrapInv.cur_ok; simpl. split; [eauto|]. split; auto.
      + apply inv_nw with (t := t); auto.
        * tf t Htf. exact I.
        * unfold depth; simpl. rewrite Hp. reflexivity.
        * intros _. eapply class_ok_ph; eauto; simpl; [rewrite Hp; auto|].
          intros _. unfold BootstrapInv.cur_ok; simpl. split; auto.
          rewrite (part_dict_skip _ j n x0); auto.
    - inversion H; subst; clear H. apply nth_error_None in En.
      apply inv_nw with (t := t); auto.
      + tf t Htf. exact I.
      + unfold depth; simpl. rewrite Hp. reflexivity.
      + intros _. eapply class_ok_ph; eauto; simpl; [rewrite Hp; auto|].
        intros _. unfold BootstrapInv.cur_ok; simpl. split.
        * apply part_meta_all. exact En.
        * rewrite Hk. f_equal. apply part_dict_all. exact En.
  Qed.
  (* a write to the class the lock holder is bootstrapping *)
  Lemma inv_write s i t t' k1 :
    Inv s -> nth_error (threads s) i = Some t -> 1 <= inner (t_ph t) ->
    ~ complete (t_cur t) (getc (t_cur t) (classes s)) ->
    (pub (getc (t_cur t) (classes s)) <> None -> pub k1 <> None) ->
    (complete (t_cur t) k1 -> needs_parent (t_ph t) = true) ->
    t_cur t' = t_cur t -> t_tgt t' = t_tgt t ->
    tfact t' (setc (t_cur t) k1 (classes s)) ->
    depth t' = depth t ->
    (needs_parent (t_ph t') = true -> needs_parent (t_ph t) = true) ->
    cur_ok t' k1 ->
    Inv (mkS (setc (t_cur t) k1 (classes s)) (lock s) (set_nth i t' (threads s))).
  Proof.
    intros HI Hi Hin Hnc Hpub Hcomp Hc Ht Htf Hd Hnp Hk.
    pose proof HI as [HL [HC [HT HK]]].
    destruct (holder_facts s i t HI Hi Hin) as [Hlock [Hcl [Hle [Hlt Hcur]]]].
    eapply inv_rebuild; eauto using keeps_refl.
    - rewrite length_setc; auto.
    - apply closure_setc; auto; [lia|].
      intros Hck p Hp. destruct (Hcl p) as [A _]; [lia|]. apply A; [lia|auto].
    - apply mono_setc; auto. lia.
    - intro Hh. exfalso. apply Hh. rewrite Hlock. reflexivity.
    - rewrite Hlock. split; [unfold depth; lia|]. left. split; auto. split; auto.
      apply class_ok_setc with (t := t); auto. lia.
  Qed.

  Lemma step_Consume s i t j acc :
    Inv s -> nth_error (threads s) i = Some t -> t_ph t = Consume j acc -> Step s i t.
  Proof.
    intros HI Hi Hp cl' l' t' e H. unfold tstep in H. rewrite Hp in H.
    pose proof HI as [HL [HC [HT HK]]]. destruct (HT i t Hi) as [Htf Hnh].
    destruct (holder_facts s i t HI Hi) as [Hlock [Hcl [Hle [Hlt Hcur]]]]; [rewrite Hp; simpl; lia|].
    assert (Hpar := parents_final s t Hcl). rewrite Hp in Hpar. specialize (Hpar eq_refl).
    unfold BootstrapInv.cur_ok in Hcur. rewrite Hp in Hcur.
    destruct Hcur as [[n [x0 [En Ed]]] [Hacc Hk]].
    assert (ND : NoDup (map fst (decls ct (t_cur t)))) by (apply wf, getd_in; lia).
    fold (decls ct (t_cur t)) in H. rewrite En in H.
    assert (Hx : lookup (classes s) (t_cur t) n = x0).
    { rewrite <- (seen_decl_eq (t_cur t) n x0 Ed). apply lookup_own.
      - rewrite Hk. simpl. apply find_cell_part; auto.
      - intros y Hy. destruct (Hpar ltac:(lia) y Hy) as [_ [_ [Hdd _]]]; exact Hdd. }
    rewrite Hx, Hk in H. simpl in H. rewrite (set_cell_part _ j n x0 ND En) in H.
    inversion H; subst; clear H.
    apply inv_write; auto.
    - rewrite Hp; simpl; lia.
    - rewrite Hk. intros [Hc _]. discriminate.
    - rewrite Hk. simpl. auto.
    - intros [Hc _]. discriminate.
    - tf t Htf. exact I.
    - unfold depth; simpl. rewrite Hp. reflexivity.
    - simpl. rewrite Hp. auto.
    - unfold BootstrapInv.cur_ok; simpl. auto.
  Qed.

  Lemma step_Publish s i t acc :
    Inv s -> nth_error (threads s) i = Some t -> t_ph t = Publish acc -> Step s i t.
  Proof.
    intros HI Hi Hp cl' l' t' e H. unfold tstep in H. rewrite Hp in H.
    pose proof HI as [HL [HC [HT HK]]]. destruct (HT i t Hi) as [Htf Hnh].
    destruct (holder_facts s i t HI Hi) as [Hlock [Hcl [Hle [Hlt Hcur]]]]; [rewrite Hp; simpl; lia|].
    unfold BootstrapInv.cur_ok in Hcur. rewrite Hp in Hcur. destruct Hcur as [Hacc Hk].
    rewrite Hk in H. simpl in H. inversion H; subst; clear H.
    apply inv_write; auto.
    - rewrite Hp; simpl; lia.
    - rewrite Hk. intros [Hc _]. discriminate.
    - simpl. discriminate.
    - intros [_ [Hc _]]. discriminate.
    - tf t Htf. exact I.
    - unfold depth; simpl. rewrite Hp. reflexivity.
    - simpl. rewrite Hp. auto.
    - unfold BootstrapInv.cur_ok; simpl. reflexivity.
  Qed.

  Lemma step_PublishF s i t :
    Inv s -> nth_error (threads s) i = Some t -> t_ph t = PublishF -> Step s i t.
  Proof.
    intros HI Hi Hp cl' l' t' e H. unfold tstep in H. rewrite Hp in H.
    pose proof HI as [HL [HC [HT HK]]]. destruct (HT i t Hi) as [Htf Hnh].
    destruct (holder_facts s i t HI Hi) as [Hlock [Hcl [Hle [Hlt Hcur]]]]; [rewrite Hp; simpl; lia|].
    unfold BootstrapInv.cur_ok in Hcur. rewrite Hp in Hcur.
    rewrite Hcur in H. simpl in H. inversion H; subst; clear H.
    apply inv_write; auto.
    - rewrite Hp; simpl; lia.
    - rewrite Hcur. intros [_ [Hc _]]. discriminate.
    - simpl. discriminate.
    - intros [_ [_ [_ Hc]]]. discriminate.
    - tf t Htf. exact I.
    - unfold depth; simpl. rewrite Hp. reflexivity.
    - simpl. rewrite Hp. auto.
    - unfold BootstrapInv.cur_ok; simpl. reflexivity.
  Qed.

  Lemma step_Register s i t :
    Inv s -> nth_error (threads s) i = Some t -> t_ph t = Register -> Step s i t.
  Proof.
    intros HI Hi Hp cl' l' t' e H. unfold tstep in H. rewrite Hp in H.
    pose proof HI as [HL [HC [HT HK]]]. destruct (HT i t Hi) as [Htf Hnh].
    destruct (holder_facts s i t HI Hi) as [Hlock [Hcl [Hle [Hlt Hcur]]]]; [rewrite Hp; simpl; lia|].
    unfold BootstrapInv.cur_ok in Hcur. rewrite Hp in Hcur.
    rewrite Hcur in H. simpl in H. inversion H; subst; clear H.
    apply inv_write; auto.
    - rewrite Hp; simpl; lia.
    - rewrite Hcur. intros [_ [_ [_ Hc]]]. discriminate.
    - simpl. discriminate.
    - intros _. rewrite Hp. reflexivity.
    - tf t Htf. exact I.
    - unfold depth; simpl. rewrite Hp. reflexivity.
    - simpl. rewrite Hp. auto.
    - unfold BootstrapInv.cur_ok; simpl. unfold BootstrapInv.complete; simpl. auto.
  Qed.
  Lemma keeps_acquire l l' i : acquire i l = Some l' -> keeps l (Some l') i.
  Proof.
    intros H j Hj Hh. destruct l as [[j2 d]|]; simpl in *; [|discriminate].
    inversion Hh; subst. destruct (Nat.eqb_spec i j); [congruence|discriminate].
  Qed.

  Lemma step_Acq s i t :
    Inv s -> nth_error (threads s) i = Some t -> t_ph t = Acq -> Step s i t.
  Proof.
    intros HI Hi Hp cl' l' t' e H. unfold tstep in H. rewrite Hp in H.
    pose proof HI as [HL [HC [HT HK]]]. destruct (HT i t Hi) as [Htf Hnh].
    destruct (acquire i (lock s)) as [l2|] eqn:Ea; inversion H; subst; clear H.
    pose proof Htf as [Hle [Hlt _]].
    eapply inv_rebuild; eauto using mono_refl, keeps_acquire.
    - tf t Htf. exact I.
    - intro Hh. exfalso. apply Hh. unfold acquire in Ea.
      destruct (lock s) as [[j d]|]; [destruct (Nat.eqb_spec i j)|]; inversion Ea; subst; reflexivity.
    - unfold acquire in Ea. destruct (lock s) as [[j d]|] eqn:El.
      + destruct (Nat.eqb_spec i j) as [<-|]; inversion Ea; subst; clear Ea.
        destruct HK as [Hd [t2 [A [B C]]]]. rewrite Hi in A; inversion A; subst t2.
        split; [lia|]. left. split; auto. split.
        * unfold depth in *; simpl. rewrite Hp in B. simpl in B. lia.
        * eapply class_ok_ph; eauto; simpl; [discriminate|].
          unfold BootstrapInv.cur_ok; simpl. rewrite Hp. auto.
      + inversion Ea; subst; clear Ea.
        assert (Hd0 : depth t = 0) by (apply Hnh; simpl; discriminate).
        unfold depth in Hd0. rewrite Hp in Hd0. simpl in Hd0.
        split; [lia|]. left. split; auto. split.
        * unfold depth; simpl. lia.
        * intros y Hy. simpl. split; [|split; [|split]].
          -- intro L. split; [auto|discriminate].
          -- intros ->. unfold BootstrapInv.cur_ok; simpl. auto.
          -- intro L. lia.
          -- intro L. auto.
  Qed.

  Lemma step_WAcq s i t w :
    Inv s -> nth_error (threads s) i = Some t -> t_ph t = WAcq w -> Step s i t.
  Proof.
    intros HI Hi Hp cl' l' t' e H. unfold tstep in H. rewrite Hp in H.
    pose proof HI as [HL [HC [HT HK]]]. destruct (HT i t Hi) as [Htf Hnh].
    destruct (acquire i (lock s)) as [l2|] eqn:Ea; inversion H; subst; clear H.
    pose proof Htf as [Hle [Hlt [_ Hf]]]. rewrite Hp in Hf. destruct Hf as [Ec [Hw Hpub]].
    eapply inv_rebuild; eauto using mono_refl, keeps_acquire.
    - tf t Htf. auto.
    - intro Hh. exfalso. apply Hh. unfold acquire in Ea.
      destruct (lock s) as [[j d]|]; [destruct (Nat.eqb_spec i j)|]; inversion Ea; subst; reflexivity.
    - unfold acquire in Ea. destruct (lock s) as [[j d]|] eqn:El.
      + destruct (Nat.eqb_spec i j) as [<-|]; inversion Ea; subst; clear Ea.
        destruct HK as [Hd [t2 [A [B C]]]]. rewrite Hi in A; inversion A; subst t2.
        unfold depth in B. rewrite Hp in B. simpl in B. lia.
      + inversion Ea; subst; clear Ea.
        split; [lia|]. left. split; auto. split.
        * unfold depth; simpl. lia.
        * intros y Hy. simpl. split; [|split; [|split]].
          -- intro L. split; [auto|discriminate].
          -- intros ->. unfold BootstrapInv.cur_ok; simpl.
             apply quiet_pub_complete; auto. rewrite Ec. auto.
          -- intro L. lia.
          -- intro L. auto.
  Qed.

  Lemma quiet_all_of_class_ok t cl :
    class_ok t cl -> t_cur t = t_tgt t -> complete (t_cur t) (getc (t_cur t) cl) ->
    forall y, y < length ct -> quiet y (getc y cl).
  Proof.
    intros Hcl Ec Hc y Hy. destruct (Hcl y Hy) as [A [B [C D]]].
    destruct (lt_eq_lt_dec y (t_cur t)) as [[L|E]|L].
    - apply A; auto.
    - subst. apply complete_quiet; auto.
    - apply D. lia.
  Qed.

  Lemma step_Release s i t :
    Inv s -> nth_error (threads s) i = Some t -> t_ph t = Release -> Step s i t.
  Proof.
    intros HI Hi Hp cl' l' t' e H. unfold tstep in H. rewrite Hp in H.
    inversion H; subst; clear H.
    pose proof HI as [HL [HC [HT HK]]]. destruct (HT i t Hi) as [Htf Hnh].
    destruct (holder_facts s i t HI Hi) as [Hlock [Hcl [Hle [Hlt Hcur]]]]; [rewrite Hp; simpl; lia|].
    unfold BootstrapInv.cur_ok in Hcur. rewrite Hp in Hcur.
    rewrite Hlock. unfold depth. rewrite Hp. simpl inner. rewrite Nat.add_1_r.
    destruct (t_tgt t - t_cur t) as [|d0] eqn:Ed; simpl release.
    - eapply inv_rebuild; eauto using mono_refl.
      + tf t Htf. destruct Hcur as [Hc _]. congruence.
      + intros j Hj Hh. rewrite Hlock in Hh. simpl in Hh. congruence.
      + intros _. unfold depth; simpl. lia.
      + apply quiet_all_of_class_ok with (t := t); auto. lia.
    - eapply inv_rebuild; eauto using mono_refl.
      + tf t Htf. destruct Hcur as [Hc _]. congruence.
      + intros j Hj Hh. rewrite Hlock in Hh. simpl in *. congruence.
      + intro Hh. exfalso. apply Hh. reflexivity.
      + split; [lia|]. left. split; auto. split.
        * unfold depth; simpl. lia.
        * apply class_ok_ph with (t := t);
            [exact Hcl|reflexivity|reflexivity|simpl; rewrite Hp; auto|
             unfold BootstrapInv.cur_ok; simpl; rewrite Hp; auto].
  Qed.

  Lemma step_Reread s i t :
    Inv s -> nth_error (threads s) i = Some t -> t_ph t = Reread -> Step s i t.
  Proof.
    intros HI Hi Hp cl' l' t' e H. unfold tstep in H. rewrite Hp in H.
    inversion H; subst; clear H.
    pose proof HI as [HL [HC [HT HK]]]. destruct (HT i t Hi) as [[_ [_ [_ Hf]]] _].
    rewrite Hp in Hf. apply ret_inv; auto.
  Qed.

  Lemma step_WCheck s i t :
    Inv s -> nth_error (threads s) i = Some t -> t_ph t = WCheck -> Step s i t.
  Proof.
    intros HI Hi Hp cl' l' t' e H. unfold tstep in H. rewrite Hp in H.
    pose proof HI as [HL [HC [HT HK]]]. destruct (HT i t Hi) as [Htf Hnh].
    pose proof Htf as [Hle [Hlt [_ Hf]]]. rewrite Hp in Hf. destruct Hf as [Ec [Hs Hpub]].
    destruct (t_seen t) eqn:Es; [|congruence]. inversion H; subst; clear H.
    apply inv_nw with (t := t); auto.
    - tf t Htf. split; [auto|split; [lia|auto]].
    - unfold depth; simpl. rewrite Hp. reflexivity.
    - intro Hc. eapply class_ok_ph; eauto; simpl; [discriminate|].
      unfold BootstrapInv.cur_ok; simpl. rewrite Hp. auto.
  Qed.
  Definition unwrap (k : cls) : cls := mkCls (pub k) (pubf k) (dict k) (reg k) false.

  Lemma complete_unwrap y k : complete y (unwrap k) <-> complete y k.
  Proof. unfold BootstrapInv.complete, unwrap; simpl. tauto. Qed.

  Lemma complete_setc_unwrap cl w y :
    length cl = length ct -> w < length ct ->
    (complete y (getc y (setc w (unwrap (getc w cl)) cl)) <-> complete y (getc y cl)).
  Proof.
    intros HL Hw. destruct (Nat.eq_dec y w) as [->|E].
    - rewrite getc_setc_same by lia. apply complete_unwrap.
    - rewrite getc_setc_other by auto. tauto.
  Qed.

  Lemma step_WRemove s i t w :
    Inv s -> nth_error (threads s) i = Some t -> t_ph t = WRemove w -> Step s i t.
  Proof.
    intros HI Hi Hp cl' l' t' e H. unfold tstep in H. rewrite Hp in H.
    inversion H; subst; clear H. fold (unwrap (getc w (classes s))).
    pose proof HI as [HL [HC [HT HK]]]. destruct (HT i t Hi) as [Htf Hnh].
    destruct (holder_facts s i t HI Hi) as [Hlock [Hcl [Hle [Hlt Hcur]]]]; [rewrite Hp; simpl; lia|].
    unfold BootstrapInv.cur_ok in Hcur. rewrite Hp in Hcur.
    pose proof Htf as [_ [_ [_ Hf]]]. rewrite Hp in Hf. destruct Hf as [Ec [Hw Hpub]].
    assert (Hwl : w < length ct) by lia.
    assert (Hcw : complete w (getc w (classes s))).
    { apply (complete_down ct (classes s) (t_cur t)); auto; lia. }
    eapply inv_rebuild; eauto using keeps_refl.
    - rewrite length_setc; auto.
    - intros y Hy Hc. apply complete_setc_unwrap; auto. apply HC; auto.
      apply (complete_setc_unwrap (classes s) w (S y)); auto.
    - intro y. split.
      + destruct (Nat.eq_dec y w) as [->|E].
        * rewrite getc_setc_same by lia. auto.
        * rewrite getc_setc_other by auto. auto.
      + apply complete_setc_unwrap; auto.
    - tf t Htf. split; [auto|split; [auto|]].
      destruct (Nat.eq_dec (t_tgt t) w) as [E|E].
      + rewrite E in *. rewrite getc_setc_same by lia. unfold unwrap; simpl. auto.
      + rewrite getc_setc_other by auto. auto.
    - intro Hh. exfalso. apply Hh. rewrite Hlock. reflexivity.
    - rewrite Hlock. split; [unfold depth; rewrite Hp; simpl; lia|]. left. split; auto. split.
      + unfold depth; simpl. rewrite Hp. reflexivity.
      + intros y Hy. simpl. destruct (Hcl y Hy) as [A [B [C D]]].
        split; [|split; [|split]].
        * intro L. split; [|discriminate].
          destruct (Nat.eq_dec y w) as [->|E].
          -- apply complete_quiet. apply complete_setc_unwrap; auto.
          -- rewrite getc_setc_other by auto. apply A; auto.
        * intros ->. unfold BootstrapInv.cur_ok; simpl. apply complete_setc_unwrap; auto.
        * intro L. lia.
        * intro L. rewrite getc_setc_other by lia. auto.
  Qed.

  Lemma step_WRel s i t w :
    Inv s -> nth_error (threads s) i = Some t -> t_ph t = WRel w -> Step s i t.
  Proof.
    intros HI Hi Hp cl' l' t' e H. unfold tstep in H. rewrite Hp in H.
    inversion H; subst; clear H.
    pose proof HI as [HL [HC [HT HK]]]. destruct (HT i t Hi) as [Htf Hnh].
    destruct (holder_facts s i t HI Hi) as [Hlock [Hcl [Hle [Hlt Hcur]]]]; [rewrite Hp; simpl; lia|].
    unfold BootstrapInv.cur_ok in Hcur. rewrite Hp in Hcur.
    pose proof Htf as [_ [_ [_ Hf]]]. rewrite Hp in Hf. destruct Hf as [Ec [Hw Hpub]].
    assert (Hrel : release (lock s) = None).
    { rewrite Hlock. unfold depth. rewrite Hp, Ec, Nat.sub_diag. reflexivity. }
    rewrite Hrel.
    assert (Hall : forall y, y <= t_tgt t -> complete y (getc y (classes s))).
    { rewrite <- Ec. apply complete_down; auto. lia. }
    eapply inv_rebuild; eauto using mono_refl.
    - tf t Htf. split; [auto|split; [lia|auto]].
    - intros j Hj Hh. rewrite Hlock in Hh. simpl in Hh. congruence.
    - intros _. unfold depth; simpl. rewrite Ec, Nat.sub_diag. reflexivity.
    - apply quiet_all_of_class_ok with (t := t); auto.
  Qed.

  (* a class whose wrapper has been removed is completely bootstrapped *)
  Definition wsound (y : nat) (k : cls) : Prop := wrap k = false -> complete y k.

  Lemma quiet_wsound y k : quiet y k -> wsound y k.
  Proof. intros [H|H] Hw; auto. rewrite H in Hw. discriminate. Qed.

  Lemma cur_ok_wsound t k : cur_ok t k -> wsound (t_cur t) k.
  Proof.
    unfold BootstrapInv.cur_ok. destruct (t_ph t); intro H;
      try (apply quiet_wsound; assumption);
      try (apply quiet_wsound; right; assumption);
      try (apply quiet_wsound; left; assumption);
      intro Hw.
    - destruct H as [_ H]. rewrite H in Hw. discriminate.
    - destruct H as [_ [_ H]]. rewrite H in Hw. discriminate.
    - destruct H as [_ H]. rewrite H in Hw. discriminate.
    - rewrite H in Hw. discriminate.
    - rewrite H in Hw. discriminate.
  Qed.

  Lemma inv_wrap s y : Inv s -> y < length ct -> wsound y (getc y (classes s)).
  Proof.
    intros [_ [_ [Ht Hl]]] Hy. destruct (lock s) as [[i d]|].
    - destruct Hl as [_ [t [Hn [_ Hc]]]]. destruct (Ht i t Hn) as [[[Hle _] _] _].
      destruct (Hc y Hy) as [H1 [H2 [H3 H4]]].
      destruct (lt_eq_lt_dec y (t_cur t)) as [[L|E]|L].
      + apply quiet_wsound, H1; auto.
      + subst. apply cur_ok_wsound; auto.
      + destruct (le_lt_dec y (t_tgt t)).
        * apply quiet_wsound; left; apply H3; lia.
        * apply quiet_wsound, H4; lia.
    - apply quiet_wsound; auto.
  Qed.

  Lemma next_wrap_some cl w p : next_wrap cl w = Some p -> p < w /\ wrap (getc p cl) = true.
  Proof.
    induction w as [|q IH]; simpl; [discriminate|].
    destruct (wrap (getc q cl)) eqn:E; intro H.
    - inversion H; subst. auto.
    - destruct (IH H). split; [lia|auto].
  Qed.

  Lemma next_wrap_none cl w : next_wrap cl w = None -> forall p, p < w -> wrap (getc p cl) = false.
  Proof.
    induction w as [|q IH]; simpl; intros H p Hp; [lia|].
    destruct (wrap (getc q cl)) eqn:E; [discriminate|].
    destruct (Nat.eq_dec p q); [subst; auto|apply IH; auto; lia].
  Qed.

  Lemma step_WNext s i t w :
    Inv s -> nth_error (threads s) i = Some t -> t_ph t = WNext w -> Step s i t.
  Proof.
    intros HI Hi Hp cl' l' t' e H. unfold tstep in H. rewrite Hp in H.
    pose proof HI as [HL [HC [HT HK]]]. destruct (HT i t Hi) as [Htf Hnh].
    pose proof Htf as [Hle [Hlt [Hob Hf]]]. rewrite Hp in Hf. destruct Hf as [Ec [Hw Hall]].
    destruct (next_wrap (classes s) w) as [p|] eqn:En; inversion H; subst; clear H.
    - destruct (next_wrap_some _ _ _ En) as [Hpw _].
      apply inv_nw with (t := t); auto.
      + split; [simpl; lia|]. split; [simpl; auto|]. split; [apply (obs_same t); auto|simpl; exact I].
      + unfold depth; simpl. rewrite Hp. reflexivity.
      + intro Hc. apply class_ok_ph with (t := t);
          [exact Hc|reflexivity|reflexivity|simpl; discriminate|
           unfold BootstrapInv.cur_ok; simpl; rewrite Hp; auto].
    - apply inv_nw with (t := t); auto.
      + tf t Htf. split; [auto|].
        destruct (le_lt_dec w (t_tgt t)) as [L|L]; [auto|].
        apply complete_down; auto.
        apply (inv_wrap s (t_tgt t) HI Hlt). apply (next_wrap_none _ _ En). lia.
      + unfold depth; simpl. rewrite Hp. reflexivity.
      + intro Hc. apply class_ok_ph with (t := t);
          [exact Hc|reflexivity|reflexivity|simpl; discriminate|
           unfold BootstrapInv.cur_ok; simpl; rewrite Hp; auto].
  Qed.

  Lemma step_ObsInst s i t :
    Inv s -> nth_error (threads s) i = Some t -> t_ph t = ObsInst -> Step s i t.
  Proof.
    intros HI Hi Hp cl' l' t' e H. unfold tstep in H. rewrite Hp in H.
    inversion H; subst; clear H.
    pose proof HI as [HL [HC [HT HK]]]. destruct (HT i t Hi) as [Htf Hnh].
    pose proof Htf as [Hle [Hlt [_ Hf]]]. rewrite Hp in Hf. destruct Hf as [Ec Hall].
    apply inv_nw with (t := t); auto.
    - split; [simpl; auto|]. split; [simpl; auto|].
      split; [|simpl; split; [auto|split; [discriminate|]]];
        [|destruct (Hall (t_tgt t)) as [Hpub0 _]; [lia|rewrite Hpub0; discriminate]].
      simpl. intros o Ho. inversion Ho; subst; clear Ho. unfold good_obs; simpl.
      split; [|split; [reflexivity|intros _]].
      + destruct (Hall (t_cur t)) as [Hpub _]; [lia|]. rewrite Hpub, Ec. reflexivity.
      + unfold all_reg. apply forallb_forall. intros x Hx. apply in_seq in Hx.
        destruct (Hall x) as [_ [_ [_ Hr]]]; [lia|]. exact Hr.
    - unfold depth; simpl. rewrite Hp. reflexivity.
    - intro Hc. apply class_ok_ph with (t := t);
        [exact Hc|reflexivity|reflexivity|simpl; discriminate|
         unfold BootstrapInv.cur_ok; simpl; rewrite Hp; auto].
  Qed.

  (* ------------------------------------------------------------ every step *)
  Theorem tstep_inv s i t cl' l' t' e :
    Inv s -> nth_error (threads s) i = Some t ->
    tstep true ct i (classes s) (lock s) t = Some (cl', l', t', e) ->
    Inv (mkS cl' l' (set_nth i t' (threads s))).
  Proof.
    intros HI Hi H. destruct (t_ph t) eqn:Hp.
    - eapply step_Test; eauto.
    - eapply step_Acq; eauto.
    - eapply step_Recheck; eauto.
    - eapply step_Enter; eauto.
    - eapply step_Inherit; eauto.
    - eapply step_Body; eauto.
    - eapply step_Consume; eauto.
    - eapply step_Publish; eauto.
    - eapply step_PublishF; eauto.
    - eapply step_Register; eauto.
    - eapply step_Release; eauto.
    - eapply step_Reread; eauto.
    - eapply step_WCheck; eauto.
    - eapply step_WAcq; eauto.
    - eapply step_WRemove; eauto.
    - eapply step_WRel; eauto.
    - eapply step_WNext; eauto.
    - eapply step_ObsInst; eauto.
    - unfold tstep in H. rewrite Hp in H. discriminate.
  Qed.

  Theorem step_inv s i s' e : Inv s -> step true ct i s = Some (s', e) -> Inv s'.
  Proof.
    intros HI H. unfold step in H. destruct (nth_error (threads s) i) as [t|] eqn:Hi; [|discriminate].
    destruct (tstep true ct i (classes s) (lock s) t) as [[[[cl' l'] t'] e']|] eqn:Ht; [|discriminate].
    inversion H; subst. eapply tstep_inv; eauto.
  Qed.
End Step.
