(* C19 — specification: the eager, sequential result of bootstrapping and what
   it means for a concurrent lazy run to be indistinguishable from it.
   Independent of the thread machine of BootstrapModel.v (only its data types
   and the dictionary helpers are used). *)
From Coq Require Import List Arith Bool.
From SC Require Import Conc.BootstrapModel.
Import ListNotations.

(* the class dictionary of a bootstrapped class: every declaration replaced by its default *)
Definition final_dict (d : cdesc) : list (nat * cell) :=
  map (fun p => (fst p, consume_cell (snd p))) (c_decls d).

(* what getattr finds for name n in the (bootstrapped) ancestors of class c *)
Fixpoint anc_cell (ct : table) (c n : nat) : cell :=
  match c with
  | O => CAbsent
  | S p => match find_cell n (final_dict (getd p ct)) with
           | CAbsent => anc_cell ct p n
           | x => x
           end
  end.

Definition seen_seq (ct : table) (c n : nat) (own : cell) : cell :=
  match own with CAbsent => anc_cell ct c n | x => x end.

(* the attribute table of class c: the inherited one, updated in declaration order *)
Definition build (ct : table) (c : nat) (ds : list (nat * cell)) (inh : attrs) : attrs :=
  fold_left (fun acc p => upd acc (fst p) (spec_of c (seen_seq ct c (fst p) (snd p)))) ds inh.

Definition key_of (d : cdesc) (inherited : option nat) : option nat :=
  match c_key d with Some k => k | None => inherited end.

(* eager sequential metadata of class c (parents first) *)
Fixpoint seq_meta (ct : table) (c : nat) : meta :=
  let d := getd c ct in
  match c with
  | O => mkM (build ct c (c_decls d) []) (key_of d None) (c_frozen d)
  | S p => let pm := seq_meta ct p in
           mkM (build ct c (c_decls d) (m_attrs pm)) (key_of d (m_key pm)) (c_frozen d)
  end.

(* the eagerly bootstrapped class *)
Definition eager_cls (ct : table) (c : nat) (w : bool) : cls :=
  mkCls (Some (seq_meta ct c)) true (final_dict (getd c ct)) true w.

(* a finished thread saw the eager result: the sequential metadata of the class
   it used, no exception, and — if it built an instance — a class (and parents)
   whose generated methods were all in place *)
Definition good_obs (ct : table) (t : thread) (o : obs) : Prop :=
  o_meta o = Some (seq_meta ct (t_tgt t)) /\ o_exc o = false /\ (t_inst t = true -> o_reg o = true).

Definition count_enter (c : nat) (tr : list (nat * ev)) : nat :=
  length (filter (fun p => match snd p with EEnter c' => Nat.eqb c c' | _ => false end) tr).

(* well-formed table: attribute names are unique within a class (they are the
   keys of __annotations__) *)
Definition wf_table (ct : table) : Prop :=
  forall d, In d ct -> NoDup (map fst (c_decls d)).

(* threads that have not started yet, each using some class of the table *)
Definition fresh_threads (ct : table) (ts : list thread) : Prop :=
  forall t, In t ts -> exists inst via tgt, t = start inst via tgt /\ tgt < length ct.
