(* C19 — the invariant of the guarded protocol (mutual exclusion + double-checked
   placeholder) and its preservation by every step of every thread. *)
From Coq Require Import List Arith Bool Lia.
From SC Require Import Conc.BootstrapModel Conc.BootstrapSpec Conc.BootstrapLemmas.
Import ListNotations.

Section Inv.
  Variable ct : table.
  Hypothesis wf : wf_table ct.

  Definition decls (c : nat) := c_decls (getd c ct).
  Definition fin (c : nat) := final_dict (getd c ct).

  Definition untouched (c : nat) (k : cls) : Prop := k = init_cls (getd c ct).
  Definition complete (c : nat) (k : cls) : Prop :=
    pub k = Some (seq_meta ct c) /\ pubf k = true /\ dict k = fin c /\ reg k = true.
  Definition quiet (c : nat) (k : cls) : Prop := untouched c k \/ complete c k.

  (* lock units held because of the phase of the innermost frame *)
  Definition inner (p : phase) : nat :=
    match p with
    | Recheck | Enter | Inherit | Body _ _ | Consume _ _ | Publish _ | PublishF | Register
    | Release | WRemove _ | WRel _ => 1
    | _ => 0
    end.
  Definition depth (t : thread) : nat := (t_tgt t - t_cur t) + inner (t_ph t).

  Definition needs_parent (p : phase) : bool :=
    match p with
    | Inherit | Body _ _ | Consume _ _ | Publish _ | PublishF | Register | Release | Reread => true
    | _ => false
    end.

  (* the class the lock holder works on, by phase *)
  Definition cur_ok (t : thread) (k : cls) : Prop :=
    let c := t_cur t in
    match t_ph t with
    | Enter | Inherit => untouched c k
    | Body j acc =>
      acc = part_meta ct c j /\ k = mkCls None false (part_dict (decls c) j) false true
    | Consume j acc =>
      (exists n x, nth_error (decls c) j = Some (n, x) /\ is_decl x = true) /\
      acc = part_meta ct c (S j) /\ k = mkCls None false (part_dict (decls c) j) false true
    | Publish acc => acc = seq_meta ct c /\ k = mkCls None false (fin c) false true
    | PublishF => k = mkCls (Some (seq_meta ct c)) false (fin c) false true
    | Register => k = mkCls (Some (seq_meta ct c)) true (fin c) false true
    | Release | Reread | WRemove _ | WRel _ => complete c k
    | _ => quiet c k
    end.

  Definition class_ok (t : thread) (cl : list cls) : Prop :=
    forall y, y < length ct ->
      (y < t_cur t -> quiet y (getc y cl) /\ (needs_parent (t_ph t) = true -> complete y (getc y cl))) /\
      (y = t_cur t -> cur_ok t (getc y cl)) /\
      (t_cur t < y <= t_tgt t -> untouched y (getc y cl)) /\
      (t_tgt t < y -> quiet y (getc y cl)).

  (* facts a thread relies on; all of them are stable under the steps of others *)
  Definition tfact (t : thread) (cl : list cls) : Prop :=
    (t_cur t <= t_tgt t /\ t_w t <= t_tgt t) /\ t_tgt t < length ct /\
    (forall o, t_obs t = Some o -> good_obs ct t o) /\
    match t_ph t with
    | Reread => pub (getc (t_cur t) cl) <> None
    | WCheck => t_cur t = t_tgt t /\ t_seen t <> None /\ pub (getc (t_tgt t) cl) <> None
    | WAcq w | WRemove w | WRel w => t_cur t = t_tgt t /\ w <= t_tgt t /\ pub (getc (t_tgt t) cl) <> None
    | WNext w => t_cur t = t_tgt t /\ w <= S (t_tgt t) /\
                 (w <= t_tgt t -> forall y, y <= t_tgt t -> complete y (getc y cl))
    | ObsInst => t_cur t = t_tgt t /\ forall y, y <= t_tgt t -> complete y (getc y cl)
    | Done => t_cur t = t_tgt t /\ t_obs t <> None /\ pub (getc (t_tgt t) cl) <> None
    | _ => True
    end.

  Definition holder (l : option (nat * nat)) : option nat :=
    match l with Some (i, _) => Some i | None => None end.

  Definition closure (cl : list cls) : Prop :=
    forall y, S y < length ct -> complete (S y) (getc (S y) cl) -> complete y (getc y cl).

  Definition Inv (s : state) : Prop :=
    length (classes s) = length ct /\
    closure (classes s) /\
    (forall i t, nth_error (threads s) i = Some t ->
        tfact t (classes s) /\ (holder (lock s) <> Some i -> depth t = 0)) /\
    match lock s with
    | None => forall y, y < length ct -> quiet y (getc y (classes s))
    | Some (i, d) => 1 <= d /\ exists t, nth_error (threads s) i = Some t /\ d = depth t /\ class_ok t (classes s)
    end.

  (* ------------------------------------------------------------ soundness of published values *)
  Definition sound (y : nat) (k : cls) : Prop :=
    (forall m, pub k = Some m -> m = seq_meta ct y) /\ (pubf k = true -> pub k = Some (seq_meta ct y)).

  Lemma quiet_sound y k : quiet y k -> sound y k.
  Proof.
    intros [H|[H1 [H2 _]]]; split.
    - rewrite H; simpl; discriminate.
    - rewrite H; simpl; discriminate.
    - intros m Hm; congruence.
    - auto.
  Qed.

  Lemma cur_ok_sound t k : cur_ok t k -> sound (t_cur t) k.
  Proof.
    unfold cur_ok. destruct (t_ph t); intro H;
      try (apply quiet_sound; assumption);
      try (apply quiet_sound; right; assumption);
      try (apply quiet_sound; left; assumption).
    - destruct H as [_ ->]; split; simpl; discriminate.
    - destruct H as [_ [_ ->]]; split; simpl; discriminate.
    - destruct H as [_ ->]; split; simpl; discriminate.
    - rewrite H; split; simpl; [congruence|discriminate].
    - rewrite H; split; simpl; [congruence|auto].
  Qed.

  Lemma class_ok_sound t cl y : class_ok t cl -> t_cur t <= t_tgt t -> y < length ct -> sound y (getc y cl).
  Proof.
    intros H Hle Hy. destruct (H y Hy) as [H1 [H2 [H3 H4]]].
    destruct (lt_eq_lt_dec y (t_cur t)) as [[L|E]|L].
    - apply quiet_sound, H1; auto.
    - subst. apply cur_ok_sound; auto.
    - destruct (le_lt_dec y (t_tgt t)).
      + apply quiet_sound; left; apply H3; lia.
      + apply quiet_sound, H4; lia.
  Qed.

  Lemma inv_sound s y : Inv s -> y < length ct -> sound y (getc y (classes s)).
  Proof.
    intros [_ [_ [Ht Hl]]] Hy. destruct (lock s) as [[i d]|].
    - destruct Hl as [_ [t [Hn [_ Hc]]]]. eapply class_ok_sound; eauto.
      destruct (Ht i t Hn) as [[[H _] _] _]; auto.
    - apply quiet_sound; auto.
  Qed.

  Lemma complete_down cl y : closure cl -> y < length ct -> complete y (getc y cl) ->
    forall z, z <= y -> complete z (getc z cl).
  Proof.
    intros Hc. induction y as [|y IH]; intros Hy H z Hz.
    - replace z with 0 by lia; auto.
    - destruct (Nat.eq_dec z (S y)); [subst; auto|].
      apply IH; [lia| apply Hc; auto | lia].
  Qed.

  Lemma quiet_pub_complete y k : quiet y k -> pub k <> None -> complete y k.
  Proof. intros [H|H] Hp; auto. rewrite H in Hp; simpl in Hp; congruence. Qed.

  (* ------------------------------------------------------------ stability *)
  Definition mono (cl cl' : list cls) : Prop :=
    forall y, (pub (getc y cl) <> None -> pub (getc y cl') <> None) /\
              (complete y (getc y cl) -> complete y (getc y cl')).

  Lemma mono_refl cl : mono cl cl.
  Proof. intro y; auto. Qed.

  Lemma tfact_mono t cl cl' : mono cl cl' -> tfact t cl -> tfact t cl'.
  Proof.
    intros Hm [H1 [H2 [H3 H4]]]. split; [auto|split; [auto|split; [auto|]]].
    destruct (t_ph t); auto.
    - apply (Hm (t_cur t)); auto.
    - destruct H4 as [A [B C]]; split; [auto|split; [auto|]]. apply (Hm (t_tgt t)); auto.
    - destruct H4 as [A [B C]]; split; [auto|split; [auto|]]. apply (Hm (t_tgt t)); auto.
    - destruct H4 as [A [B C]]; split; [auto|split; [auto|]]. apply (Hm (t_tgt t)); auto.
    - destruct H4 as [A [B C]]; split; [auto|split; [auto|]]. apply (Hm (t_tgt t)); auto.
    - destruct H4 as [A [B C]]; split; [auto|split; [auto|]]. intros Hw y Hy. apply (Hm y); auto.
    - destruct H4 as [A B]; split; auto. intros y Hy. apply (Hm y); auto.
    - destruct H4 as [A [B C]]; split; [auto|split; [auto|]]. apply (Hm (t_tgt t)); auto.
  Qed.

  Definition keeps (l l' : option (nat * nat)) (i : nat) : Prop :=
    forall j, j <> i -> holder l = Some j -> holder l' = Some j.

  Lemma inv_rebuild s i t t' cl' l' :
    Inv s -> nth_error (threads s) i = Some t ->
    length cl' = length ct -> closure cl' -> mono (classes s) cl' ->
    tfact t' cl' -> keeps (lock s) l' i ->
    (holder l' <> Some i -> depth t' = 0) ->
    match l' with
    | None => forall y, y < length ct -> quiet y (getc y cl')
    | Some (j, d) => 1 <= d /\ ((j = i /\ d = depth t' /\ class_ok t' cl') \/
                                (j <> i /\ cl' = classes s /\ lock s = Some (j, d)))
    end ->
    Inv (mkS cl' l' (set_nth i t' (threads s))).
  Proof.
    intros [HL [HC [HT HK]]] Hi Hlen Hclo Hm Htf Hkeep Hdep Hlock.
    assert (Hil : i < length (threads s)) by (apply nth_error_Some; congruence).
    split; [exact Hlen|]. split; [exact Hclo|]. split; simpl.
    - intros j tj Hj. destruct (Nat.eq_dec j i) as [->|Hne].
      + rewrite nth_error_set_nth_same in Hj by auto. inversion Hj; subst. split; auto.
      + rewrite nth_error_set_nth_other in Hj by auto.
        destruct (HT j tj Hj) as [A B]. split; [eapply tfact_mono; eauto|].
        intro Hh. apply B. intro Hh'. apply Hh. apply Hkeep; auto.
    - destruct l' as [[j d]|]; auto.
      destruct Hlock as [Hd [[-> [Hdd Hc]]|[Hne [-> Hl]]]]; split; auto.
      + exists t'. rewrite nth_error_set_nth_same by auto. auto.
      + rewrite Hl in HK. destruct HK as [_ [tj [A [B C]]]].
        exists tj. rewrite nth_error_set_nth_other by auto. auto.
  Qed.
  (* ------------------------------------------------------------ writes *)
  Lemma closure_setc cl c k1 :
    closure cl -> length cl = length ct -> c < length ct ->
    ~ complete c (getc c cl) ->
    (complete c k1 -> forall p, S p = c -> complete p (getc p cl)) ->
    closure (setc c k1 cl).
  Proof.
    intros Hc HL Hlt Hn Hp y Hy H.
    destruct (Nat.eq_dec (S y) c) as [E|E].
    - rewrite <- E in *. rewrite getc_setc_same in H by lia.
      rewrite getc_setc_other by lia. apply (Hp H y); auto.
    - rewrite getc_setc_other in H by auto. destruct (Nat.eq_dec y c) as [->|E2].
      + exfalso. apply Hn. apply Hc; auto.
      + rewrite getc_setc_other by auto. apply Hc; auto.
  Qed.

  Lemma mono_setc cl c k1 :
    length cl = length ct -> c < length ct ->
    ~ complete c (getc c cl) -> (pub (getc c cl) <> None -> pub k1 <> None) ->
    mono cl (setc c k1 cl).
  Proof.
    intros HL Hlt Hn Hp y. destruct (Nat.eq_dec y c) as [->|E].
    - rewrite getc_setc_same by lia. split; auto. intro; contradiction.
    - rewrite getc_setc_other by auto. auto.
  Qed.

  Lemma class_ok_setc t t' cl k1 :
    class_ok t cl -> length cl = length ct ->
    t_cur t' = t_cur t -> t_tgt t' = t_tgt t ->
    (needs_parent (t_ph t') = true -> needs_parent (t_ph t) = true) ->
    cur_ok t' k1 -> t_cur t < length ct -> t_cur t <= t_tgt t ->
    class_ok t' (setc (t_cur t) k1 cl).
  Proof.
    intros H HL Hc Ht Hn Hk Hlt Hle y Hy. destruct (H y Hy) as [A [B [C D]]]. rewrite Hc, Ht.
    destruct (Nat.eq_dec y (t_cur t)) as [->|E].
    - rewrite getc_setc_same by lia.
      split; [intro; lia|]. split; [intros _; exact Hk|]. split; intro; lia.
    - rewrite getc_setc_other by auto.
      split; [|split; [intro; contradiction|split; auto]].
      intro L. destruct (A L) as [A1 A2]. split; auto.
  Qed.

  Lemma class_ok_ph t t' cl :
    class_ok t cl ->
    t_cur t' = t_cur t -> t_tgt t' = t_tgt t ->
    (needs_parent (t_ph t') = true -> needs_parent (t_ph t) = true) ->
    (cur_ok t (getc (t_cur t) cl) -> cur_ok t' (getc (t_cur t) cl)) ->
    class_ok t' cl.
  Proof.
    intros H Hc Ht Hn Hk y Hy. destruct (H y Hy) as [A [B [C D]]]. rewrite Hc, Ht.
    split; [|split; [|split; auto]].
    - intro L. destruct (A L) as [A1 A2]. split; auto.
    - intros ->. auto.
  Qed.

  (* ------------------------------------------------------------ who holds the lock *)
  Lemma must_hold s i t :
    Inv s -> nth_error (threads s) i = Some t -> 1 <= depth t ->
    lock s = Some (i, depth t) /\ class_ok t (classes s).
  Proof.
    intros [_ [_ [HT HK]]] Hi Hd. destruct (HT i t Hi) as [_ Hn].
    destruct (lock s) as [[j d]|]; simpl in Hn.
    - destruct (Nat.eq_dec j i) as [->|E].
      + destruct HK as [_ [t2 [A [B C]]]]. rewrite Hi in A. inversion A; subst. auto.
      + assert (depth t = 0) by (apply Hn; congruence). lia.
    - assert (depth t = 0) by (apply Hn; congruence). lia.
  Qed.

  Lemma not_holder s i t :
    Inv s -> nth_error (threads s) i = Some t -> depth t = 0 -> holder (lock s) <> Some i.
  Proof.
    intros [_ [_ [HT HK]]] Hi Hd. destruct (lock s) as [[j d]|]; simpl; [|discriminate].
    intro E; inversion E; subst. destruct HK as [Hd1 [t2 [A [B C]]]].
    rewrite Hi in A; inversion A; subst. lia.
  Qed.

  (* the lock clause is unchanged by a step of a thread that does not hold the lock
     and touches neither the classes nor the lock *)
  Lemma lock_clause_same s i t t' :
    Inv s -> nth_error (threads s) i = Some t -> holder (lock s) <> Some i ->
    match lock s with
    | None => forall y, y < length ct -> quiet y (getc y (classes s))
    | Some (j, d) => 1 <= d /\ ((j = i /\ d = depth t' /\ class_ok t' (classes s)) \/
                                (j <> i /\ classes s = classes s /\ lock s = Some (j, d)))
    end.
  Proof.
    intros [_ [_ [_ HK]]] Hi Hn. destruct (lock s) as [[j d]|]; auto.
    destruct HK as [Hd _]. split; auto. right. split; auto. simpl in Hn. congruence.
  Qed.

  Lemma keeps_refl l i : keeps l l i.
  Proof. intros j _ H; exact H. Qed.

  Lemma anc_not_decl c n : is_decl (anc_cell ct c n) = false.
  Proof.
    induction c as [|p IH]; simpl; auto.
    destruct (find_cell n (final_dict (getd p ct))) eqn:E; auto.
    exfalso. unfold final_dict in E. induction (c_decls (getd p ct)) as [|[m x] ds IHd]; simpl in E; [discriminate|].
    destruct (Nat.eqb n m); auto. destruct x as [[| |] ? ? ?| | |]; simpl in E; discriminate.
  Qed.
  (* a step that neither writes a class nor touches the lock *)
  Lemma inv_nw s i t t' :
    Inv s -> nth_error (threads s) i = Some t ->
    tfact t' (classes s) -> depth t' = depth t ->
    (class_ok t (classes s) -> class_ok t' (classes s)) ->
    Inv (mkS (classes s) (lock s) (set_nth i t' (threads s))).
  Proof.
    intros HI Hi Htf Hd Hc. pose proof HI as [HL [HC [HT HK]]].
    destruct (HT i t Hi) as [_ Hnh].
    eapply inv_rebuild; eauto using mono_refl, keeps_refl.
    - intro Hh. rewrite Hd. auto.
    - destruct (lock s) as [[j d]|]; auto.
      destruct HK as [Hd1 [t2 [A [B C]]]]. split; auto.
      destruct (Nat.eq_dec j i) as [->|E]; [left|right; auto].
      rewrite Hi in A; inversion A; subst. rewrite Hd. auto.
  Qed.
End Inv.
