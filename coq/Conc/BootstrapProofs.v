(* C19 — theorems about the bootstrap protocol: safety of the guarded protocol
   for every number of threads and every schedule, progress, once-only
   execution of the body, refutation of the unguarded protocol, and the
   __new__ wrapper. *)
From Coq Require Import List Arith Bool Lia.
From SC Require Import Conc.BootstrapModel Conc.BootstrapSpec Conc.BootstrapLemmas
  Conc.BootstrapInv Conc.BootstrapStep.
Import ListNotations.

Section Safety.
  Variable ct : table.
  Hypothesis wf : wf_table ct.

  Lemma init_inv ts : fresh_threads ct ts -> Inv ct (init_state ct ts).
  Proof.
    intro Hf. unfold init_state. split; [simpl; apply map_length|]. split; [|split]; simpl.
    - intros y Hy [Hc _]. rewrite getc_init in Hc by lia. discriminate.
    - intros i t Hi. apply nth_error_In in Hi. destruct (Hf t Hi) as [inst [via [tgt [-> Ht]]]].
      split; [|intros _; unfold depth; destruct inst; simpl; lia].
      split; [simpl; lia|]. split; [simpl; auto|]. split; [simpl; discriminate|].
      destruct inst; simpl; [|exact I]. split; [auto|split; [auto|intro; lia]].
    - intros y Hy. left. unfold untouched. apply getc_init; auto.
  Qed.

  Lemma run_inv sched : forall s, Inv ct s -> Inv ct (fst (run true ct sched s)).
  Proof.
    induction sched as [|i rest IH]; intros s HI; simpl; auto.
    destruct (step true ct i s) as [[s' e]|] eqn:Es.
    - specialize (IH s' (step_inv ct wf s i s' e HI Es)).
      destruct (run true ct rest s'); auto.
    - apply IH; auto.
  Qed.

  (* what the invariant says about observers *)
  Lemma inv_obs s i t o :
    Inv ct s -> nth_error (threads s) i = Some t -> t_obs t = Some o -> good_obs ct t o.
  Proof. intros [_ [_ [HT _]]] Hi Ho. destruct (HT i t Hi) as [[_ [_ [H _]]] _]. auto. Qed.

  Lemma inv_done s i t :
    Inv ct s -> nth_error (threads s) i = Some t -> t_ph t = Done -> exists o, t_obs t = Some o.
  Proof.
    intros [_ [_ [HT _]]] Hi Hp. destruct (HT i t Hi) as [[_ [_ [_ H]]] _]. rewrite Hp in H.
    destruct (t_obs t) as [o|]; [eauto|]. destruct H as [_ [H _]]; congruence.
  Qed.

  Lemma inv_pub s c m :
    Inv ct s -> c < length ct -> pub (getc c (classes s)) = Some m -> m = seq_meta ct c.
  Proof. intros HI Hc Hp. destruct (inv_sound ct s c HI Hc) as [H _]. auto. Qed.

  (* ------------------------------------------------------------ progress *)
  Lemma enabled s i t :
    Inv ct s -> nth_error (threads s) i = Some t -> t_ph t <> Done ->
    (lock s = None \/ holder (lock s) = Some i) ->
    tstep true ct i (classes s) (lock s) t <> None.
  Proof.
    intros HI Hi Hd Hl. unfold tstep.
    assert (Ha : acquire i (lock s) <> None).
    { destruct Hl as [-> | Hl]; simpl; [discriminate|].
      destruct (lock s) as [[j d]|]; simpl in *; [|discriminate].
      inversion Hl; subst. rewrite Nat.eqb_refl. discriminate. }
    destruct (t_ph t); try congruence; try discriminate;
      repeat match goal with
      | |- context [if ?b then _ else _] => destruct b
      | |- context [match ?x with _ => _ end] => destruct x
      end; try discriminate; try congruence.
  Qed.

  Theorem progress s :
    Inv ct s -> (exists i t, nth_error (threads s) i = Some t /\ t_ph t <> Done) ->
    exists i, step true ct i s <> None.
  Proof.
    intros HI [i [t [Hi Hd]]]. pose proof HI as [_ [_ [HT HK]]].
    destruct (lock s) as [[j d]|] eqn:El.
    - destruct HK as [Hd1 [tj [Hj [Hdj _]]]]. exists j. unfold step. rewrite Hj.
      assert (Hnd : t_ph tj <> Done).
      { intro Hp. destruct (HT j tj Hj) as [[_ [_ [_ Hf]]] _]. rewrite Hp in Hf.
        unfold depth in Hdj. rewrite Hp in Hdj. simpl in Hdj. destruct Hf; lia. }
      assert (He := enabled s j tj HI Hj Hnd). rewrite El in He. specialize (He (or_intror eq_refl)).
      rewrite El. destruct (tstep true ct j (classes s) (Some (j, d)) tj) as [[[[? ?] ?] ?]|]; congruence.
    - exists i. unfold step. rewrite Hi.
      assert (He := enabled s i t HI Hi Hd (or_introl El)). rewrite El in He. rewrite El.
      destruct (tstep true ct i (classes s) None t) as [[[[? ?] ?] ?]|]; congruence.
  Qed.
  (* ------------------------------------------------------------ once only *)
  Definition inbody (p : phase) : bool :=
    match p with
    | Inherit | Body _ _ | Consume _ _ | Publish _ | PublishF | Register => true
    | _ => false
    end.

  (* class c has been entered by thread t and is not finished yet *)
  Definition inprog (c : nat) (t : thread) : Prop :=
    (t_cur t < c <= t_tgt t) \/ (t_cur t = c /\ inbody (t_ph t) = true).

  Definition started (c : nat) (s : state) : Prop :=
    complete ct c (getc c (classes s)) \/
    exists i d t, lock s = Some (i, d) /\ nth_error (threads s) i = Some t /\ inprog c t.

  Lemma inprog_depth c t : inprog c t -> 1 <= depth t.
  Proof.
    unfold inprog, depth. intros [H|[H1 H2]]; [lia|].
    destruct (t_ph t); simpl in *; try discriminate; lia.
  Qed.

  Lemma tstep_mono s i t cl' l' t' e :
    Inv ct s -> nth_error (threads s) i = Some t ->
    tstep true ct i (classes s) (lock s) t = Some (cl', l', t', e) ->
    mono ct (classes s) cl'.
  Proof.
    intros HI Hi H. pose proof HI as [HL _].
    assert (Hw : forall k1, 1 <= inner (t_ph t) ->
                 ~ complete ct (t_cur t) (getc (t_cur t) (classes s)) ->
                 (pub (getc (t_cur t) (classes s)) <> None -> pub k1 <> None) ->
                 mono ct (classes s) (setc (t_cur t) k1 (classes s))).
    { intros k1 Hin Hn Hp.
      destruct (holder_facts ct s i t HI Hi Hin) as [_ [_ [Hle [Hlt _]]]].
      apply mono_setc; auto. lia. }
    unfold tstep in H. destruct (t_ph t) eqn:Hp;
      try (repeat match type of H with
                  | (if ?b then _ else _) = _ => destruct b
                  | match ?x with _ => _ end = _ => destruct x
                  end; inversion H; subst; apply mono_refl).
    - (* Consume *)
      destruct (holder_facts ct s i t HI Hi) as [_ [_ [_ [_ Hc]]]]; [rewrite Hp; simpl; lia|].
      unfold cur_ok in Hc. rewrite Hp in Hc. destruct Hc as [_ [_ Hk]].
      destruct (nth_error (c_decls (getd (t_cur t) ct)) k) as [[n x]|]; inversion H; subst; [|apply mono_refl].
      apply Hw; [try rewrite Hp; simpl; lia| |simpl; auto].
      rewrite Hk. intros [Hc _]. discriminate.
    - (* Publish *)
      destruct (holder_facts ct s i t HI Hi) as [_ [_ [_ [_ Hc]]]]; [rewrite Hp; simpl; lia|].
      unfold cur_ok in Hc. rewrite Hp in Hc. destruct Hc as [_ Hk].
      inversion H; subst. apply Hw; [try rewrite Hp; simpl; lia| |simpl; discriminate].
      rewrite Hk. intros [Hc _]. discriminate.
    - (* PublishF *)
      destruct (holder_facts ct s i t HI Hi) as [_ [_ [_ [_ Hc]]]]; [rewrite Hp; simpl; lia|].
      unfold cur_ok in Hc. rewrite Hp in Hc.
      inversion H; subst. apply Hw; [try rewrite Hp; simpl; lia| |simpl; auto].
      rewrite Hc. intros [_ [Hc2 _]]. discriminate.
    - (* Register *)
      destruct (holder_facts ct s i t HI Hi) as [_ [_ [_ [_ Hc]]]]; [rewrite Hp; simpl; lia|].
      unfold cur_ok in Hc. rewrite Hp in Hc.
      inversion H; subst. apply Hw; [try rewrite Hp; simpl; lia| |simpl; auto].
      rewrite Hc. intros [_ [_ [_ Hc2]]]. discriminate.
    - (* WRemove *)
      inversion H; subst. fold (unwrap (getc w (classes s))).
      destruct HI as [_ [_ [HT _]]]. destruct (HT i t Hi) as [[_ [Hlt [_ Hf]]] _].
      rewrite Hp in Hf. destruct Hf as [_ [Hw2 _]].
      intro y. split.
      + destruct (Nat.eq_dec y w) as [->|E].
        * rewrite getc_setc_same by lia. auto.
        * rewrite getc_setc_other by auto. auto.
      + apply complete_setc_unwrap; auto. lia.
  Qed.
  Ltac ip Hp := unfold inprog in *; simpl in *; rewrite ?Hp in *; simpl in *.

  Lemma ret_inprog t m c :
    t_cur t < c <= t_tgt t -> inprog c (ret t m).
  Proof.
    intro H. unfold ret. destruct (Nat.ltb_spec (t_cur t) (t_tgt t)); [|lia].
    unfold inprog; simpl. destruct (Nat.eq_dec (S (t_cur t)) c); [right; auto|left; lia].
  Qed.

  Lemma inprog_step s i t cl' l' t' e c :
    Inv ct s -> nth_error (threads s) i = Some t ->
    tstep true ct i (classes s) (lock s) t = Some (cl', l', t', e) ->
    inprog c t ->
    (inprog c t' /\ exists d', l' = Some (i, d')) \/ complete ct c (getc c cl').
  Proof.
    intros HI Hi H Hin.
    destruct (must_hold ct s i t HI Hi (inprog_depth c t Hin)) as [Hlock Hcl].
    pose proof HI as [HL [_ [HT _]]]. destruct (HT i t Hi) as [[Hle [Hlt [_ Hf]]] _].
    unfold tstep in H. rewrite Hlock in H. destruct (t_ph t) eqn:Hp.
    - (* Test *)
      match type of H with (if ?b then _ else _) = _ => destruct b end; inversion H; subst; clear H.
      + left. split; [|eauto]. ip Hp. intuition discriminate.
      + left. split; [|eauto]. apply ret_inprog. ip Hp. intuition discriminate.
    - (* Acq *)
      simpl in H. rewrite Nat.eqb_refl in H. inversion H; subst; clear H.
      left. split; [|eauto]. ip Hp. intuition discriminate.
    - (* Recheck *)
      destruct (pub (getc (t_cur t) (classes s))); inversion H; subst; clear H;
        (left; split; [|eauto]; ip Hp; intuition discriminate).
    - (* Enter *)
      destruct (t_cur t) as [|p] eqn:Ec; inversion H; subst; clear H; (left; split; [|eauto]).
      + unfold inprog in *; simpl in *. rewrite Hp, Ec in *. simpl in *. intuition discriminate.
      + unfold inprog in *; simpl in *. rewrite Hp, Ec in *. simpl in *.
        destruct Hin as [Hr|[_ Hr]]; [left; lia|discriminate].
    - (* Inherit *)
      inversion H; subst; clear H. left. split; [|eauto]. ip Hp. tauto.
    - (* Body *)
      destruct (nth_error (c_decls (getd (t_cur t) ct)) k) as [[n x]|];
        [destruct (is_decl (lookup (classes s) (t_cur t) n))|]; inversion H; subst; clear H;
        (left; split; [|eauto]; ip Hp; tauto).
    - (* Consume *)
      destruct (nth_error (c_decls (getd (t_cur t) ct)) k) as [[n x]|]; inversion H; subst; clear H;
        (left; split; [|eauto]; ip Hp; tauto).
    - inversion H; subst; clear H. left. split; [|eauto]. ip Hp. tauto.
    - inversion H; subst; clear H. left. split; [|eauto]. ip Hp. tauto.
    - (* Register *)
      inversion H; subst; clear H.
      destruct Hin as [Hr|[Hr _]].
      + left. split; [|eauto]. left. simpl. exact Hr.
      + right. subst c.
        destruct (holder_facts ct s i t HI Hi) as [_ [_ [_ [_ Hc]]]]; [rewrite Hp; simpl; lia|].
        unfold cur_ok in Hc. rewrite Hp in Hc. rewrite getc_setc_same by lia.
        rewrite Hc. unfold complete; simpl. auto.
    - (* Release *)
      inversion H; subst; clear H. left.
      assert (Hr : t_cur t < c <= t_tgt t) by (ip Hp; intuition discriminate).
      split; [left; simpl; exact Hr|].
      unfold depth. rewrite Hp. simpl inner. rewrite Nat.add_1_r.
      destruct (t_tgt t - t_cur t) as [|d0] eqn:Ed; [lia|]. simpl. eauto.
    - (* Reread *)
      inversion H; subst; clear H. left. split; [|eauto]. apply ret_inprog. ip Hp. intuition discriminate.
    - exfalso. try rewrite Hp in Hf. ip Hp. destruct Hf as [Ec _]. intuition (try discriminate; lia).
    - exfalso. try rewrite Hp in Hf. ip Hp. destruct Hf as [Ec _]. intuition (try discriminate; lia).
    - exfalso. try rewrite Hp in Hf. ip Hp. destruct Hf as [Ec _]. intuition (try discriminate; lia).
    - exfalso. try rewrite Hp in Hf. ip Hp. destruct Hf as [Ec _]. intuition (try discriminate; lia).
    - exfalso. try rewrite Hp in Hf. ip Hp. destruct Hf as [Ec _]. intuition (try discriminate; lia).
    - exfalso. try rewrite Hp in Hf. ip Hp. destruct Hf as [Ec _]. intuition (try discriminate; lia).
    - discriminate.
  Qed.
  Lemma nonholder_lock s i j d t cl' l' t' e :
    Inv ct s -> nth_error (threads s) i = Some t -> lock s = Some (j, d) -> j <> i ->
    tstep true ct i (classes s) (lock s) t = Some (cl', l', t', e) -> l' = lock s.
  Proof.
    intros HI Hi Hl Hne H. pose proof HI as [_ [_ [HT _]]].
    destruct (HT i t Hi) as [_ Hn].
    assert (Hd : depth t = 0) by (apply Hn; rewrite Hl; simpl; congruence).
    unfold tstep in H. rewrite Hl in *. unfold depth in Hd.
    destruct (t_ph t) eqn:Hp; simpl in Hd; try lia;
      try (simpl in H; destruct (Nat.eqb_spec i j); [congruence|discriminate]);
      repeat match type of H with
             | (if ?b then _ else _) = _ => destruct b
             | match ?x with _ => _ end = _ => destruct x
             end; inversion H; subst; auto.
  Qed.

  Definition is_enter (c : nat) (e : ev) : bool :=
    match e with EEnter c' => Nat.eqb c c' | _ => false end.

  Lemma step_started s i s' e c :
    Inv ct s -> step true ct i s = Some (s', e) ->
    (started c s -> started c s') /\
    (is_enter c e = true -> ~ started c s /\ started c s').
  Proof.
    intros HI H. unfold step in H.
    destruct (nth_error (threads s) i) as [t|] eqn:Hi; [|discriminate].
    destruct (tstep true ct i (classes s) (lock s) t) as [[[[cl' l'] t'] e']|] eqn:Ht; [|discriminate].
    inversion H; subst; clear H.
    assert (Hil : i < length (threads s)) by (apply nth_error_Some; congruence).
    split.
    - intros [Hc|[j [d [tj [Hl [Hj Hin]]]]]].
      + left. simpl. apply (tstep_mono s i t _ _ _ _ HI Hi Ht c). exact Hc.
      + destruct (Nat.eq_dec j i) as [->|Hne].
        * rewrite Hi in Hj. inversion Hj; subst tj.
          destruct (inprog_step s i t _ _ _ _ c HI Hi Ht Hin) as [[Hin' [d' Hl']]|Hc]; [|left; exact Hc].
          right. exists i, d', t'. simpl. split; auto. split; auto.
          apply nth_error_set_nth_same; auto.
        * right. exists j, d, tj. simpl. split; [|split; auto].
          -- rewrite (nonholder_lock s i j d t _ _ _ _ HI Hi Hl Hne Ht). exact Hl.
          -- rewrite nth_error_set_nth_other; auto.
    - intro He. unfold tstep in Ht.
      destruct (t_ph t) eqn:Hp;
        try (repeat match type of Ht with
                    | (if ?b then _ else _) = _ => destruct b
                    | match ?x with _ => _ end = _ => destruct x
                    end; inversion Ht; subst; simpl in He; discriminate).
      destruct (holder_facts ct s i t HI Hi) as [Hlock [Hcl [Hle [Hlt Hcur]]]]; [rewrite Hp; simpl; lia|].
      unfold cur_ok in Hcur. rewrite Hp in Hcur.
      assert (Ec : t_cur t = c).
      { destruct (t_cur t); inversion Ht; subst; simpl in He; apply Nat.eqb_eq in He; auto. }
      split.
      + intros [[Hc _]|[j [d [tj [Hl [Hj Hin]]]]]].
        * rewrite <- Ec, Hcur in Hc. discriminate.
        * rewrite Hlock in Hl. inversion Hl; subst j d. rewrite Hi in Hj. inversion Hj; subst tj.
          unfold inprog in Hin. rewrite Hp in Hin. simpl in Hin. destruct Hin as [?|[_ ?]]; [lia|discriminate].
      + right. exists i, (depth t), t'. simpl.
        destruct (t_cur t) as [|p] eqn:Ec2; inversion Ht; subst; clear Ht;
          (split; [auto|split; [apply nth_error_set_nth_same; auto|]]).
        * right. simpl. rewrite Ec2. auto.
        * left. simpl. lia.
  Qed.

  Lemma run_once c sched : forall s,
    Inv ct s ->
    let r := run true ct sched s in
    count_enter c (snd r) <= 1 /\
    (started c s -> count_enter c (snd r) = 0) /\
    (started c s \/ count_enter c (snd r) = 1 -> started c (fst r)).
  Proof.
    induction sched as [|i rest IH]; intros s HI; simpl.
    - unfold count_enter; simpl. split; [lia|]. split; auto. intros [H|H]; [auto|discriminate].
    - destruct (step true ct i s) as [[s1 e]|] eqn:Es; [|apply IH; auto].
      specialize (IH s1 (step_inv ct wf s i s1 e HI Es)).
      destruct (step_started s i s1 e c HI Es) as [Hfw Hen].
      destruct (run true ct rest s1) as [s' tr']. simpl in *.
      destruct IH as [I1 [I2 I3]].
      unfold count_enter in *. simpl. fold (is_enter c e).
      destruct (is_enter c e) eqn:Ee; simpl.
      + destruct (Hen eq_refl) as [Hns Hs1]. rewrite (I2 Hs1).
        split; [lia|]. split; [intro; contradiction|]. intros _. apply I3; auto.
      + split; [auto|]. split; [intro Hs; apply I2; auto|].
        intros [Hs|Hcnt]; apply I3; auto.
  Qed.

  Lemma init_not_started ts c : c < length ct -> ~ started c (init_state ct ts).
  Proof.
    intros Hc [[H _]|[i [d [t [H _]]]]]; simpl in H; [|discriminate].
    rewrite getc_init in H by auto. discriminate.
  Qed.
  (* ------------------------------------------------------------ at least once *)
  (* a class whose metadata is visible has been entered *)
  Lemma pub_started s c :
    Inv ct s -> c < length ct -> pub (getc c (classes s)) <> None -> started c s.
  Proof.
    intros HI Hc Hp. pose proof HI as [_ [_ [HT HK]]].
    destruct (lock s) as [[i d]|] eqn:El.
    - destruct HK as [_ [t [Hi [_ Hcl]]]]. destruct (HT i t Hi) as [[[Hle _] _] _].
      destruct (Hcl c Hc) as [A [B [C D]]].
      destruct (lt_eq_lt_dec c (t_cur t)) as [[L|E]|L].
      + left. apply quiet_pub_complete; auto. apply A; auto.
      + subst c. specialize (B eq_refl). unfold cur_ok in B.
        destruct (t_ph t) eqn:Hp2;
          try (left; apply quiet_pub_complete; auto; fail); try (left; exact B; fail).
        * unfold untouched in B. rewrite B in Hp. simpl in Hp. congruence.
        * unfold untouched in B. rewrite B in Hp. simpl in Hp. congruence.
        * destruct B as [_ B]. rewrite B in Hp. simpl in Hp. congruence.
        * destruct B as [_ [_ B]]. rewrite B in Hp. simpl in Hp. congruence.
        * destruct B as [_ B]. rewrite B in Hp. simpl in Hp. congruence.
        * right. exists i, d, t. split; [auto|split; [auto|]]. right. rewrite Hp2. auto.
        * right. exists i, d, t. split; [auto|split; [auto|]]. right. rewrite Hp2. auto.
      + destruct (le_lt_dec c (t_tgt t)).
        * exfalso. assert (Hu := C (conj L l)). unfold untouched in Hu. rewrite Hu in Hp. simpl in Hp. congruence.
        * left. apply quiet_pub_complete; auto.
    - left. apply quiet_pub_complete; auto.
  Qed.

  Lemma ret_inprog_back t m c : inprog c (ret t m) -> t_cur t < c <= t_tgt t.
  Proof.
    unfold ret. destruct (Nat.ltb_spec (t_cur t) (t_tgt t)).
    - unfold inprog; simpl. intros [Hr|[Hr _]]; lia.
    - destruct (t_inst t); unfold inprog; simpl; intros [Hr|[_ Hr]]; try lia; discriminate.
  Qed.

  Lemma thread_back s i t cl' l' t' e c :
    Inv ct s -> nth_error (threads s) i = Some t ->
    tstep true ct i (classes s) (lock s) t = Some (cl', l', t', e) ->
    inprog c t' -> inprog c t \/ is_enter c e = true.
  Proof.
    intros HI Hi H Hin. unfold tstep in H.
    destruct (t_ph t) eqn:Hp;
      try (repeat match type of H with
                  | (if ?b then _ else _) = _ => destruct b
                  | match ?x with _ => _ end = _ => destruct x
                  end; inversion H; subst; clear H;
           first [ left; left; apply (ret_inprog_back _ _ _ Hin)
                 | left; unfold inprog in *; simpl in *; rewrite ?Hp; simpl;
                   intuition (try discriminate; auto) ]; fail).
    (* Enter *)
    destruct (t_cur t) as [|p] eqn:Ec; inversion H; subst; clear H;
      unfold inprog in *; simpl in *; rewrite ?Ec, ?Hp in *; simpl in *.
    - destruct Hin as [Hr|[Hr _]]; [left; left; exact Hr|right; subst c; reflexivity].
    - destruct Hin as [Hr|[_ Hr]]; [|discriminate].
      destruct (Nat.eq_dec c (S p)) as [->|Hne]; [right; apply Nat.eqb_refl|left; left; lia].
  Qed.

  Lemma complete_back s i t cl' l' t' e c :
    Inv ct s -> nth_error (threads s) i = Some t ->
    tstep true ct i (classes s) (lock s) t = Some (cl', l', t', e) ->
    complete ct c (getc c cl') -> complete ct c (getc c (classes s)) \/ inprog c t.
  Proof.
    intros HI Hi H Hc. pose proof HI as [HL [_ [HT _]]].
    destruct (HT i t Hi) as [[_ [Hlt [_ Hf]]] _].
    assert (Hw : forall k1, complete ct c (getc c (setc (t_cur t) k1 (classes s))) ->
                 inbody (t_ph t) = true ->
                 complete ct c (getc c (classes s)) \/ inprog c t).
    { intros k1 Hk Hb. destruct (Nat.eq_dec c (t_cur t)) as [->|Hne].
      - right. right. auto.
      - left. rewrite getc_setc_other in Hk by auto. exact Hk. }
    unfold tstep in H. destruct (t_ph t) eqn:Hp;
      try (repeat match type of H with
                  | (if ?b then _ else _) = _ => destruct b
                  | match ?x with _ => _ end = _ => destruct x
                  end; inversion H; subst; clear H; left; exact Hc).
    - destruct (nth_error (c_decls (getd (t_cur t) ct)) k) as [[n x]|]; inversion H; subst; clear H;
        [eapply Hw; eauto|left; exact Hc].
    - inversion H; subst; clear H. eapply Hw; eauto.
    - inversion H; subst; clear H. eapply Hw; eauto.
    - inversion H; subst; clear H. eapply Hw; eauto.
    - inversion H; subst; clear H. left. destruct Hf as [_ [Hw2 _]].
      fold (unwrap (getc w (classes s))) in Hc. apply complete_setc_unwrap in Hc; auto. lia.
  Qed.

  Lemma other_holder s i t cl' l' t' e j d' :
    Inv ct s -> nth_error (threads s) i = Some t ->
    tstep true ct i (classes s) (lock s) t = Some (cl', l', t', e) ->
    l' = Some (j, d') -> j <> i -> lock s = Some (j, d').
  Proof.
    intros HI Hi H Hl Hne. subst l'. unfold tstep in H.
    assert (Hrel : 1 <= inner (t_ph t) -> release (lock s) = Some (j, d') -> False).
    { intros Hin Hr. destruct (holder_facts ct s i t HI Hi Hin) as [Hlock _].
      rewrite Hlock in Hr. destruct (depth t) as [|[|n]]; simpl in Hr; congruence. }
    assert (Hacq : forall l2, acquire i (lock s) = Some l2 -> Some l2 = Some (j, d') -> False).
    { intros l2 Ha He. unfold acquire in Ha.
      destruct (lock s) as [[k dd]|]; [destruct (Nat.eqb_spec i k)|]; congruence. }
    destruct (t_ph t) eqn:Hp;
      try (repeat match type of H with
                  | (if ?b then _ else _) = _ => destruct b
                  | match ?x with _ => _ end = _ => destruct x
                  end; inversion H; subst; congruence).
    - destruct (acquire i (lock s)) as [l2|] eqn:Ea; [|discriminate].
      exfalso. apply (Hacq l2 eq_refl). congruence.
    - exfalso. apply Hrel; [simpl; lia|congruence].
    - destruct (acquire i (lock s)) as [l2|] eqn:Ea; [|discriminate].
      exfalso. apply (Hacq l2 eq_refl). congruence.
    - exfalso. apply Hrel; [simpl; lia|congruence].
  Qed.

  Lemma inprog_started s i t c :
    Inv ct s -> nth_error (threads s) i = Some t -> inprog c t -> started c s.
  Proof.
    intros HI Hi Hin. destruct (must_hold ct s i t HI Hi (inprog_depth c t Hin)) as [Hl _].
    right. exists i, (depth t), t. auto.
  Qed.

  Lemma step_started_back s i s' e c :
    Inv ct s -> step true ct i s = Some (s', e) ->
    started c s' -> started c s \/ is_enter c e = true.
  Proof.
    intros HI H Hs'. unfold step in H.
    destruct (nth_error (threads s) i) as [t|] eqn:Hi; [|discriminate].
    destruct (tstep true ct i (classes s) (lock s) t) as [[[[cl' l'] t'] e']|] eqn:Ht; [|discriminate].
    inversion H; subst; clear H. unfold started in Hs'. simpl in Hs'.
    assert (Hil : i < length (threads s)) by (apply nth_error_Some; congruence).
    destruct Hs' as [Hc|[j [d' [tj [Hl [Hj Hin]]]]]].
    - destruct (complete_back s i t _ _ _ _ c HI Hi Ht Hc) as [Hc0|Hin]; [left; left; exact Hc0|].
      left. eapply inprog_started; eauto.
    - destruct (Nat.eq_dec j i) as [->|Hne].
      + rewrite nth_error_set_nth_same in Hj by auto. inversion Hj; subst tj.
        destruct (thread_back s i t _ _ _ _ c HI Hi Ht Hin) as [Hin0|He]; [|right; exact He].
        left. eapply inprog_started; eauto.
      + rewrite nth_error_set_nth_other in Hj by auto.
        left. right. exists j, d', tj. split; [|auto].
        apply (other_holder s i t cl' l' t' e j d' HI Hi Ht Hl Hne).
  Qed.

  Lemma run_exact c sched : forall s,
    Inv ct s ->
    let r := run true ct sched s in
    count_enter c (snd r) = 0 -> started c (fst r) -> started c s.
  Proof.
    induction sched as [|i rest IH]; intros s HI; simpl; auto.
    destruct (step true ct i s) as [[s1 e]|] eqn:Es; [|apply IH; auto].
    specialize (IH s1 (step_inv ct wf s i s1 e HI Es)).
    destruct (run true ct rest s1) as [s' tr']. simpl in *.
    unfold count_enter in *. simpl. fold (is_enter c e).
    destruct (is_enter c e) eqn:Ee; simpl; intros Hc Hs; [discriminate|].
    destruct (step_started_back s i s1 e c HI Es (IH Hc Hs)) as [H|H]; [auto|congruence].
  Qed.

  Lemma inv_done_pub s i t :
    Inv ct s -> nth_error (threads s) i = Some t -> t_ph t = Done ->
    t_tgt t < length ct /\ pub (getc (t_tgt t) (classes s)) <> None.
  Proof.
    intros [_ [_ [HT _]]] Hi Hp. destruct (HT i t Hi) as [[_ [Hlt [_ H]]] _]. rewrite Hp in H.
    split; [auto|]. destruct H as [_ [_ H]]. exact H.
  Qed.
End Safety.

(* ---------------------------------------------------------------- main theorem *)
Theorem guarded_safe ct ts sched :
  wf_table ct -> fresh_threads ct ts ->
  let r := run true ct sched (init_state ct ts) in
  (forall i t o, nth_error (threads (fst r)) i = Some t -> t_obs t = Some o -> good_obs ct t o) /\
  (forall i t, nth_error (threads (fst r)) i = Some t -> t_ph t = Done -> exists o, t_obs t = Some o) /\
  (forall c m, c < length ct -> pub (getc c (classes (fst r))) = Some m -> m = seq_meta ct c) /\
  (forall c, count_enter c (snd r) <= 1).
Proof.
  intros wf Hf r.
  assert (HI0 := init_inv ct ts Hf).
  assert (HI : Inv ct (fst r)) by (apply run_inv; auto).
  split; [|split; [|split]].
  - intros i t o. apply inv_obs; auto.
  - intros i t. apply (inv_done ct (fst r)); auto.
  - intros c m. apply inv_pub; auto.
  - intro c. apply (run_once ct wf c sched _ HI0).
Qed.

(* the body of a class whose metadata is visible - in particular of the class used by any
   finished thread - has been entered exactly once *)
Theorem guarded_exactly_once ct ts sched :
  wf_table ct -> fresh_threads ct ts ->
  let r := run true ct sched (init_state ct ts) in
  (forall c, c < length ct -> pub (getc c (classes (fst r))) <> None -> count_enter c (snd r) = 1) /\
  (forall i t, nth_error (threads (fst r)) i = Some t -> t_ph t = Done ->
               count_enter (t_tgt t) (snd r) = 1).
Proof.
  intros wf Hf r.
  assert (HI0 := init_inv ct ts Hf).
  assert (HI : Inv ct (fst r)) by (apply run_inv; auto).
  assert (H1 : forall c, c < length ct -> pub (getc c (classes (fst r))) <> None -> count_enter c (snd r) = 1).
  { intros c Hc Hp. assert (Hs := pub_started ct (fst r) c HI Hc Hp).
    destruct (run_once ct wf c sched _ HI0) as [Hle _]. fold r in Hle.
    destruct (count_enter c (snd r)) as [|[|n]] eqn:E; [|reflexivity|lia].
    exfalso. apply (init_not_started ct ts c Hc).
    apply (run_exact ct wf c sched _ HI0); auto. }
  split; [exact H1|].
  intros i t Hi Hp. destruct (inv_done_pub ct (fst r) i t HI Hi Hp) as [Hlt Hpub]. auto.
Qed.

(* no reachable state is a deadlock *)
Theorem guarded_progress ct ts sched :
  wf_table ct -> fresh_threads ct ts ->
  let s := fst (run true ct sched (init_state ct ts)) in
  (exists i t, nth_error (threads s) i = Some t /\ t_ph t <> Done) ->
  exists i, step true ct i s <> None.
Proof.
  intros wf Hf s. apply (progress ct). apply run_inv; auto. apply init_inv; auto.
Qed.

(* ---------------------------------------------------------------- the code before the fix *)
(* one class, one attribute declared Attr(default_factory=..., init=False, repr=False,
   compare=False); two threads read __spec_class__ for the first time *)
Definition ct_race : table := [mkC [(0, CAttr DFactory false false false)] None false].
Definition ts_race : list thread := [start false false 0; start false false 0].
(* thread 0: test, enter, inherit, read, consume;  thread 1: test, enter, inherit, read
   (sees the consumed declaration);  thread 0 finishes;  thread 1 finishes and publishes last *)
Definition sched_race : list nat := [0;0;0;0;0] ++ [1;1;1;1] ++ repeat 0 8 ++ repeat 1 8.

Lemma unguarded_refuted :
  let r := run false ct_race sched_race (init_state ct_race ts_race) in
  count_enter 0 (snd r) = 2 /\
  (exists t o, nth_error (threads (fst r)) 1 = Some t /\ t_ph t = Done /\ t_obs t = Some o /\
               ~ good_obs ct_race t o) /\
  pub (getc 0 (classes (fst r))) =
    Some (mkM [(0, mkA 0 DNone true true true)] None false) /\
  seq_meta ct_race 0 = mkM [(0, mkA 0 DFactory false false false)] None false.
Proof.
  vm_compute. split; [reflexivity|]. split; [|split; reflexivity].
  eexists. eexists. split; [reflexivity|]. split; [reflexivity|]. split; [reflexivity|].
  intros [H _]. discriminate.
Qed.

(* the same schedule under the guarded protocol *)
Lemma guarded_same_schedule :
  let r := run true ct_race sched_race (init_state ct_race ts_race) in
  count_enter 0 (snd r) = 1 /\
  pub (getc 0 (classes (fst r))) = Some (seq_meta ct_race 0).
Proof. vm_compute. split; reflexivity. Qed.

(* ---------------------------------------------------------------- __new__ *)
(* es: for each class of a chain, leaf first, the user's own __new__ (if any).
   mask: which wrappers have been removed so far.  Whatever subset has been removed,
   instances are built by the __new__ the eager classes would use. *)
Fixpoint lazy_chain (es : list (option nat)) (mask : list bool) : list newent :=
  match es, mask with
  | e :: es', true :: m' =>
    remove_wrapper (forallb (fun x => match x with None => true | Some _ => false end) es') (install e)
    :: lazy_chain es' m'
  | e :: es', _ :: m' => install e :: lazy_chain es' m'
  | e :: es', [] => install e :: lazy_chain es' []
  | [], _ => []
  end.

Lemma resolve_none es :
  forallb (fun x : option nat => match x with None => true | Some _ => false end) es = true ->
  resolve_new (map eager es) = None.
Proof.
  induction es as [|[u|] es IH]; simpl; auto; discriminate.
Qed.

Theorem wrapper_transparent es : forall mask,
  resolve_new (lazy_chain es mask) = resolve_new (map eager es).
Proof.
  induction es as [|e es IH]; intros mask; [destruct mask; reflexivity|].
  destruct mask as [|[|] m]; destruct e as [u|]; simpl; auto.
  destruct (forallb _ es) eqn:E; simpl; auto.
  rewrite resolve_none; auto.
Qed.

(* ---------------------------------------------------------------- trigger independence *)
(* whatever the first uses are (instantiation, __spec_class__, __dataclass_fields__, on the
   class itself, on a subclass or on a parent first) and however they are interleaved: two
   finished uses of the same class saw the same metadata, namely the eager one *)
Theorem trigger_independent ct ts sched :
  wf_table ct -> fresh_threads ct ts ->
  let r := run true ct sched (init_state ct ts) in
  forall i j ti tj oi oj,
    nth_error (threads (fst r)) i = Some ti -> nth_error (threads (fst r)) j = Some tj ->
    t_obs ti = Some oi -> t_obs tj = Some oj -> t_tgt ti = t_tgt tj ->
    o_meta oi = o_meta oj /\ o_meta oi = Some (seq_meta ct (t_tgt ti)).
Proof.
  intros wf Hf r i j ti tj oi oj Hi Hj Hoi Hoj Ht.
  destruct (guarded_safe ct ts sched wf Hf) as [H _]. fold r in H.
  destruct (H i ti oi Hi Hoi) as [A _]. destruct (H j tj oj Hj Hoj) as [B _].
  split; [rewrite A, B, Ht; reflexivity|exact A].
Qed.

(* every trigger kind alone, on a two-class chain: the use finishes, both bodies ran once *)
Definition ct_two : table :=
  [mkC [(0, CAttr DFactory false true true); (1, CVal); (2, CAbsent)] (Some (Some 1)) false;
   mkC [(3, CAttr DValue true false true); (0, CAbsent)] None true].

Definition finishes_once (inst via : bool) (tgt : nat) : bool :=
  let r := run true ct_two (repeat 0 80) (init_state ct_two [start inst via tgt]) in
  match threads (fst r) with
  | [t] => match t_ph t, t_obs t with
           | Done, Some _ => forallb (fun c => Nat.eqb (count_enter c (snd r)) 1) (seq 0 (S tgt))
           | _, _ => false
           end
  | _ => false
  end.

Lemma every_trigger_finishes :
  forallb (fun u => finishes_once (fst (fst u)) (snd (fst u)) (snd u))
    [(true, false, 1); (false, false, 1); (false, true, 1); (true, false, 0); (false, false, 0); (false, true, 0)] = true.
Proof. vm_compute. reflexivity. Qed.

(* three threads, interleaved round-robin: everybody finishes *)
Lemma three_threads_finish :
  let ts := [start true false 1; start false true 1; start false false 0] in
  let r := run true ct_two (flat_map (fun _ => [0; 1; 2]) (seq 0 90)) (init_state ct_two ts) in
  forallb (fun t => match t_ph t with Done => true | _ => false end) (threads (fst r)) = true /\
  count_enter 0 (snd r) = 1 /\ count_enter 1 (snd r) = 1.
Proof. vm_compute. repeat split; reflexivity. Qed.

Lemma ct_two_wf : wf_table ct_two.
Proof.
  intros d [<-|[<-|[]]]; simpl; repeat constructor; simpl; intuition discriminate.
Qed.
