(* C20 — proofs, part 2: the invariant holds in every reachable state (any
   number of threads, any programs, any interleaving); the property theorems. *)
From Coq Require Import List ZArith Bool Arith Lia.
From SC Require Import Conc.ModulesCopyableModel Conc.ModulesCopyableSpec Conc.ModulesCopyableInv.
Import ListNotations.
Open Scope Z_scope.

(* ------------------------------------------------------------ reachable states *)
Notation reach := (reachable false safe_abort).

Lemma init_inv user created0 progs : Inv user (init_state user created0 progs).
Proof.
  unfold Inv, init_state; simpl. split.
  - apply global_intro; simpl; auto.
    + induction progs; simpl; auto; unfold contrib at 1; simpl; lia.
    + intros _. unfold stableP, init_entry. destruct user; simpl; auto.
  - intros i th H. apply nth_error_In in H. apply in_map_iff in H.
    destruct H as (p & <- & _). unfold local_ok; simpl. split; auto; intros N; exfalso; auto.
Qed.

Lemma step_inv user s t s' lb :
  Inv user s -> step false safe_abort s t = Some (s', lb) -> Inv user s'.
Proof.
  intros [G L] ST. unfold step in ST.
  destruct (nth_error (ths s) t) as [th|] eqn:Ht; try discriminate.
  destruct (tstep false safe_abort t (sh s) th) as [[[s1 th1] l1]|] eqn:TS; try discriminate.
  inversion ST; subst; clear ST. unfold Inv; simpl.
  eapply tstep_inv; eauto.
Qed.

Lemma reach_inv user created0 progs s :
  reach (init_state user created0 progs) s -> Inv user s.
Proof.
  induction 1.
  - apply init_inv.
  - eapply step_inv; eauto.
Qed.
