(* C20 — proofs, part 2: the invariant holds in every reachable state (any
   number of threads, any programs, any interleaving); the property theorems. *)
From Coq Require Import List ZArith Bool Arith Lia.
From SC Require Import Conc.ModulesCopyableModel Conc.ModulesCopyableSpec Conc.ModulesCopyableInv.
Import ListNotations.
Open Scope Z_scope.

(* ------------------------------------------------------------ reachable states *)
Notation reach := (reachable false safe_abort).

Lemma init_inv user created0 progs : Inv user (init_state user created0 progs).
Proof.
  unfold Inv, init_state; simpl. split.
  - apply global_intro; simpl; auto.
    + induction progs; simpl; auto; unfold contrib at 1; simpl; lia.
    + intros _. unfold stableP, init_entry. destruct user; simpl; auto.
  - intros i th H. apply nth_error_In in H. apply in_map_iff in H.
    destruct H as (p & <- & _). unfold local_ok; simpl. split; auto; intros N; exfalso; auto.
Qed.

Lemma step_inv user s t s' lb :
  Inv user s -> step false safe_abort s t = Some (s', lb) -> Inv user s'.
Proof.
  intros [G L] ST. unfold step in ST.
  destruct (nth_error (ths s) t) as [th|] eqn:Ht; try discriminate.
  destruct (tstep false safe_abort t (sh s) th) as [[[s1 th1] l1]|] eqn:TS; try discriminate.
  inversion ST; subst; clear ST. unfold Inv; simpl.
  eapply tstep_inv; eauto.
Qed.

Lemma reach_inv user created0 progs s :
  reach (init_state user created0 progs) s -> Inv user s.
Proof.
  induction 1.
  - apply init_inv.
  - eapply step_inv; eauto.
Qed.

(* ------------------------------------------------------------ the property *)
Lemma outside_contrib th : status_of th = Outside -> contrib th = 0.
Proof.
  unfold status_of, contrib. destruct (nest_depth (t_stack th)); [|discriminate].
  destruct (t_ctl th); simpl; auto; discriminate.
Qed.

Lemma all_outside_total l :
  Forall (fun th => status_of th = Outside) l -> total l = 0.
Proof.
  induction 1; simpl; auto. rewrite (outside_contrib _ H). lia.
Qed.

Lemma Forall_nth {A} (P : A -> Prop) l i x : Forall P l -> nth_error l i = Some x -> P x.
Proof. intros F H. rewrite Forall_forall in F. apply F. eapply nth_error_In; eauto. Qed.

Theorem quiescent_restored user created0 progs s :
  reach (init_state user created0 progs) s ->
  quiescent (statuses s) ->
  tbl (sh s) = init_entry user.
Proof.
  intros R Q. apply reach_inv in R. destruct R as [(G1 & G2 & G3 & G4 & G5) L].
  unfold quiescent, statuses in Q. rewrite Forall_map in Q.
  assert (T := all_outside_total _ Q). rewrite <- G1 in T.
  assert (LK : lock (sh s) = None).
  { destruct (lock (sh s)) as [[i d]|]; auto. exfalso.
    destruct G3 as (_ & th & p & dd & H1 & H2 & H3).
    pose proof (Forall_nth _ _ _ _ Q H1) as O. unfold status_of in O.
    rewrite H2 in O. destruct (nest_depth (t_stack th)); discriminate. }
  specialize (G2 LK). rewrite T in G2. unfold stableP in G2. unfold init_entry.
  destruct user; simpl in G2; tauto.
Qed.

Lemma inside_contrib th : status_of th = Inside -> 1 <= Z.of_nat (nest_depth (t_stack th)).
Proof.
  unfold status_of. destruct (nest_depth (t_stack th)); [|lia].
  destruct (t_ctl th); discriminate.
Qed.

Theorem entry_while_inside user created0 progs s :
  reach (init_state user created0 progs) s ->
  some_inside (statuses s) ->
  tbl (sh s) <> NoEntry.
Proof.
  intros R Q. apply reach_inv in R. destruct R as [(G1 & G2 & G3 & G4 & G5) L].
  unfold some_inside, statuses in Q. rewrite Exists_map in Q. apply Exists_exists in Q.
  destruct Q as (th & IN & ST). apply In_nth_error in IN. destruct IN as [i Hi].
  pose proof (inside_contrib _ ST) as D.
  pose proof (total_ge_one _ _ _ Hi) as GE. rewrite <- G1 in GE.
  assert (C1 : 1 <= contrib th).
  { unfold contrib. destruct (t_ctl th) as [| |p d]; try destruct p; simpl; lia. }
  destruct (lock (sh s)) as [[j dd]|] eqn:LK.
  - destruct G3 as (_ & thj & p & d & H1 & H2 & H3).
    destruct (L _ _ H1) as [PC _]. rewrite H2 in PC. destruct PC as (_ & _ & _ & _ & _ & TA).
    assert (C2 : 1 + pc_contrib p <= rc (sh s)).
    { destruct (Nat.eq_dec i j) as [->|N].
      - rewrite Hi in H1. inversion H1; subst thj. unfold contrib in GE. rewrite H2 in GE. lia.
      - pose proof (total_ge_two _ _ _ _ _ N Hi H1) as G. rewrite <- G1 in G.
        unfold contrib at 2 in G. rewrite H2 in G. lia. }
    unfold tab_at, stableP in TA.
    destruct p; simpl in H3; try discriminate; simpl in C2; destruct user;
      repeat match goal with
             | H : context [?a <? ?b] |- _ => destruct (Z.ltb_spec a b)
             end; intuition (try congruence; try lia).
  - specialize (G2 eq_refl). unfold stableP in G2.
    destruct user; [intuition congruence|].
    destruct (Z.ltb_spec 0 (rc (sh s))); [intuition congruence | lia].
Qed.

(* the counter counts the copies in flight *)
Theorem refcount_counts_copies user created0 progs s :
  reach (init_state user created0 progs) s ->
  rc (sh s) = total (ths s) /\ 0 <= rc (sh s).
Proof.
  intros R. apply reach_inv in R. destruct R as [(G1 & _) _]. split; auto.
  rewrite G1. apply total_nonneg.
Qed.

Theorem snapshots_ok user created0 progs s :
  reach (init_state user created0 progs) s ->
  snap_ok (init_entry user) (statuses s) (tbl (sh s)).
Proof.
  intros R. split.
  - eapply quiescent_restored; eauto.
  - eapply entry_while_inside; eauto.
Qed.

(* ------------------------------------------------------------ module copies succeed *)
Definition inside_b (st : list frame) : bool := negb (Nat.eqb (nest_depth st) 0).

Fixpoint stack_ok (st : list frame) : Prop :=
  match st with
  | [] => True
  | FNest _ rest :: r => forallb (guarded (inside_b r)) rest = true /\ stack_ok r
  | FTry rest :: r => forallb (guarded (inside_b r)) rest = true /\ stack_ok r
  end.

Definition thread_ok (th : thread) : Prop :=
  t_fails th = 0%nat /\ stack_ok (t_stack th) /\
  match t_ctl th with
  | Run => forallb (guarded (inside_b (t_stack th))) (t_code th) = true
  | Unwind => True
  | Proto _ d => forallb (guarded true) (p_body d) = true /\
                 forallb (guarded (inside_b (t_stack th))) (p_rest d) = true
  end.

Lemma tstep_thread_ok a t s th s' th' lb :
  tstep false a t s th = Some (s', th', lb) ->
  (inside_b (t_stack th) = true -> tbl s <> NoEntry) ->
  thread_ok th -> thread_ok th'.
Proof.
  intros ST E (F & SK & C). unfold tstep in ST.
  destruct th as [c code stk fails crashed]; simpl in *. subst fails.
  destruct c as [| |p d].
  - destruct code as [|[m| | |ab b|b] rest]; simpl in C.
    + destruct stk as [|[ab rest|rest] st]; try discriminate; inversion ST; subst; clear ST;
        unfold thread_ok; simpl in *; tauto.
    + apply andb_true_iff in C. destruct C as [C1 C2].
      destruct m; simpl in *.
      * specialize (E C1). destruct (tbl s); try congruence; simpl in ST;
          inversion ST; subst; unfold thread_ok; simpl; tauto.
      * inversion ST; subst; unfold thread_ok; simpl; tauto.
    + inversion ST; subst; unfold thread_ok; simpl; tauto.
    + inversion ST; subst; unfold thread_ok; simpl; tauto.
    + apply andb_true_iff in C. inversion ST; subst; unfold thread_ok; simpl; tauto.
    + apply andb_true_iff in C. inversion ST; subst; unfold thread_ok; simpl.
      unfold inside_b in *; simpl. tauto.
  - destruct stk as [|[ab rest|rest] st]; inversion ST; subst; clear ST;
      unfold thread_ok; simpl in *; tauto.
  - destruct (fires a d p).
    + inversion ST; subst. unfold thread_ok; simpl; tauto.
    + destruct (line_step t s p); try discriminate; inversion ST; subst; clear ST;
        unfold thread_ok; simpl; try tauto.
      destruct (p_exc d); unfold thread_ok; simpl; tauto.
Qed.

Lemma Forall_upd {A} (P : A -> Prop) l i x : Forall P l -> P x -> Forall P (upd i x l).
Proof.
  intros F; revert i; induction F; intros [|i] Px; simpl; constructor; auto.
Qed.

Lemma init_threads_ok progs :
  Forall (fun p => guarded_prog p = true) progs -> Forall thread_ok (map init_thread progs).
Proof.
  induction 1; simpl; constructor; auto.
  unfold thread_ok; simpl. auto.
Qed.

Lemma reach_threads_ok user created0 progs s :
  Forall (fun p => guarded_prog p = true) progs ->
  reach (init_state user created0 progs) s -> Forall thread_ok (ths s).
Proof.
  intros GP R. induction R.
  - simpl. apply init_threads_ok; auto.
  - unfold step in H.
    destruct (nth_error (ths s) t) as [th|] eqn:Ht; try discriminate.
    destruct (tstep false safe_abort t (sh s) th) as [[[s1 th1] l1]|] eqn:TS; try discriminate.
    inversion H; subst; clear H. simpl. apply Forall_upd; auto.
    eapply tstep_thread_ok; eauto.
    + intros IB. eapply entry_while_inside; eauto.
      unfold some_inside, statuses. rewrite Exists_map. apply Exists_exists.
      exists th. split; [eapply nth_error_In; eauto|].
      unfold status_of, inside_b in *. destruct (nest_depth (t_stack th)); simpl in IB; auto; discriminate.
    + eapply Forall_nth; eauto.
Qed.

Theorem module_copies_succeed user created0 progs s :
  Forall (fun p => guarded_prog p = true) progs ->
  reach (init_state user created0 progs) s ->
  Forall (fun th => t_fails th = 0%nat) (ths s).
Proof.
  intros GP R. pose proof (reach_threads_ok _ _ _ _ GP R) as F.
  eapply Forall_impl; [|exact F]. intros th (H & _); auto.
Qed.

(* ------------------------------------------------------------ no deadlock *)
Lemma tstep_none r a t s th :
  tstep r a t s th = None ->
  finished th \/ exists p d, t_ctl th = Proto p d /\ line_step t s p = Blocked.
Proof.
  unfold tstep, finished. destruct th as [c code stk fails crashed]; simpl.
  destruct c as [| |p d].
  - destruct code as [|[m| | |ab b|b] rest]; try discriminate.
    + destruct stk as [|[ab rest|rest] st]; try discriminate; auto.
    + destruct (m && entry_eqb (tbl s) NoEntry); discriminate.
  - destruct stk as [|[ab rest|rest] st]; discriminate.
  - destruct (fires a d p); try discriminate.
    destruct (line_step t s p) eqn:E; try discriminate.
    intros _. right. eauto.
Qed.

Lemma blocked_cases t s p :
  line_step t s p = Blocked ->
  (p = NAcq /\ exists j, clock s = Some j) \/
  ((p = EAcq \/ p = XAcq) /\ exists j d, lock s = Some (j, d) /\ j <> t).
Proof.
  destruct p; simpl; try discriminate.
  - destruct (clock s); try discriminate. left; eauto.
  - destruct (lock s) as [[o d]|]; simpl; try discriminate.
    destruct (Nat.eqb_spec o t); try discriminate. right. split; eauto.
  - destruct (lock s) as [[o d]|]; simpl; try discriminate.
    destruct (Nat.eqb_spec o t); try discriminate. right. split; eauto.
  - destruct (tbl s); discriminate.
Qed.

Lemma holder_moves a j s th p d :
  t_ctl th = Proto p d -> holdsL p = true \/ holdsC p = true ->
  exists r, tstep false a j s th = Some r.
Proof.
  intros C H. unfold tstep. rewrite C.
  destruct (fires a d p); [eexists; reflexivity|].
  destruct p; simpl in H; destruct H as [H|H]; try discriminate; simpl;
    try (eexists; reflexivity).
  destruct (tbl s); eexists; reflexivity.
Qed.

Theorem no_deadlock user created0 progs s :
  reach (init_state user created0 progs) s ->
  (exists t th, nth_error (ths s) t = Some th /\ ~ finished th) ->
  exists t s' lb, step false safe_abort s t = Some (s', lb).
Proof.
  intros R (t & th & Ht & NF). apply reach_inv in R. destruct R as [(G1 & G2 & G3 & G4 & G5) L].
  assert (MV : forall j thj r, nth_error (ths s) j = Some thj ->
                 tstep false safe_abort j (sh s) thj = Some r ->
                 exists t s' lb, step false safe_abort s t = Some (s', lb)).
  { intros j thj [[s1 th1] l1] Hj TS. exists j. unfold step. rewrite Hj, TS. eauto. }
  destruct (tstep false safe_abort t (sh s) th) as [r|] eqn:TS.
  - exact (MV _ _ _ Ht TS).
  - apply tstep_none in TS. destruct TS as [F|(p & d & C & B)]; [contradiction|].
    apply blocked_cases in B. destruct B as [(-> & j & CK)|(_ & j & dd & LK & _)].
    + rewrite CK in G4. destruct G4 as (thj & pj & dj & H1 & H2 & H3).
      destruct (holder_moves safe_abort j (sh s) thj pj dj H2 (or_intror H3)) as [r Hr].
      exact (MV _ _ _ H1 Hr).
    + rewrite LK in G3. destruct G3 as (_ & thj & pj & dj & H1 & H2 & H3).
      destruct (holder_moves safe_abort j (sh s) thj pj dj H2 (or_introl H3)) as [r Hr].
      exact (MV _ _ _ H1 Hr).
Qed.

(* ------------------------------------------------------------ executable schedules are interleavings *)
Lemma run_sched_reachable r a s0 sched : forall s,
  reachable r a s0 s -> reachable r a s0 (run_sched r a s sched).
Proof.
  induction sched as [|t rest IH]; intros s R; simpl; auto.
  destruct (step r a s t) as [[s' l]|] eqn:E; auto.
  apply IH. eapply reach_step; eauto.
Qed.
