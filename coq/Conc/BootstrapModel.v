(* C19 — model of lazy bootstrapping (spec_classes/spec_class.py:
   spec_class.__call__, the metadata placeholders, the __new__ wrapper,
   bootstrap, build_attr_spec).  No proofs in this file.

   A class table is a chain: class (S c) derives from class c, every class is
   decorated lazily.  What the code shares between threads is modelled per
   class: the value stored under __spec_class__ (placeholder = None),
   whether __dataclass_fields__ still is a placeholder, the class dictionary
   entries of the annotated attributes, whether the generated methods have
   been registered and whether the __new__ wrapper is still installed; plus
   the one module-level re-entrant lock.

   A thread is the protocol skeleton of the code, one step = one access to
   shared state.  `g = true` is the code after commit 4091aa5 (lock and
   re-check in the placeholders' bootstrapper); `g = false` is the code
   before it (placeholder calls bootstrap unconditionally). *)
From Coq Require Import List Arith Bool.
Import ListNotations.

(* ---------------------------------------------------------------- data *)
Inductive dkind := DNone | DValue | DFactory.

(* an attribute specification as stored in metadata.attrs *)
Record aspec := mkA { a_owner : nat; a_dk : dkind; a_init : bool; a_repr : bool; a_cmp : bool }.

(* what a class dictionary holds under an attribute name *)
Inductive cell :=
| CAttr (dk : dkind) (i r c : bool)   (* Attr(...) / dataclasses.field(...) declaration *)
| CVal                                (* a plain value (declared, or a consumed default) *)
| CMissing                            (* the MISSING sentinel (consumed declaration without default) *)
| CAbsent.                            (* no entry: lookup continues in the parent *)

Definition attrs := list (nat * aspec).
Record meta := mkM { m_attrs : attrs; m_key : option nat; m_frozen : bool }.

(* a class as written by the user: annotated attributes in order with their
   declaration, decorator arguments key (None = not given: inherit) / frozen *)
Record cdesc := mkC { c_decls : list (nat * cell); c_key : option (option nat); c_frozen : bool }.
Definition table := list cdesc.

Definition dkind_eqb (a b : dkind) : bool :=
  match a, b with DNone, DNone | DValue, DValue | DFactory, DFactory => true | _, _ => false end.

Fixpoint find_cell (n : nat) (d : list (nat * cell)) : cell :=
  match d with
  | [] => CAbsent
  | (m, x) :: t => if Nat.eqb n m then x else find_cell n t
  end.

(* setattr(cls, n, v) *)
Fixpoint set_cell (n : nat) (v : cell) (d : list (nat * cell)) : list (nat * cell) :=
  match d with
  | [] => [(n, v)]
  | (m, x) :: t => if Nat.eqb n m then (m, v) :: t else (m, x) :: set_cell n v t
  end.

(* dict update: keep the position of an existing key, else append *)
Fixpoint upd (a : attrs) (n : nat) (v : aspec) : attrs :=
  match a with
  | [] => [(n, v)]
  | (m, x) :: t => if Nat.eqb n m then (m, v) :: t else (m, x) :: upd t n v
  end.

(* build_attr_spec: the value written back over a declaration *)
Definition consume_cell (x : cell) : cell :=
  match x with
  | CAttr DValue _ _ _ => CVal
  | CAttr _ _ _ _ => CMissing
  | y => y
  end.

(* build_attr_spec / Attr.from_attr_value: the spec built from what getattr returned *)
Definition spec_of (owner : nat) (x : cell) : aspec :=
  match x with
  | CAttr dk i r c => mkA owner dk i r c
  | CVal => mkA owner DValue true true true
  | CMissing | CAbsent => mkA owner DNone true true true
  end.

Definition is_decl (x : cell) : bool := match x with CAttr _ _ _ _ => true | _ => false end.

(* ---------------------------------------------------------------- shared state *)
Record cls := mkCls { pub : option meta; pubf : bool; dict : list (nat * cell); reg : bool; wrap : bool }.

Definition init_cls (d : cdesc) : cls := mkCls None false (c_decls d) false true.
Definition dflt_cls : cls := mkCls None false [] false true.
Definition dflt_desc : cdesc := mkC [] None false.

Definition getc (c : nat) (cl : list cls) : cls := nth c cl dflt_cls.
Fixpoint setc (c : nat) (v : cls) (cl : list cls) : list cls :=
  match cl, c with
  | [], _ => []
  | _ :: t, O => v :: t
  | x :: t, S c' => x :: setc c' v t
  end.
Definition getd (c : nat) (ct : table) : cdesc := nth c ct dflt_desc.

(* getattr(cls_c, n, MISSING): own dictionary, then the parents' (MRO) *)
Fixpoint lookup (cl : list cls) (c n : nat) : cell :=
  match find_cell n (dict (getc c cl)) with
  | CAbsent => match c with O => CAbsent | S p => lookup cl p n end
  | x => x
  end.

(* ---------------------------------------------------------------- threads *)
Inductive phase :=
| Test            (* look the placeholder attribute up on the class *)
| Acq             (* placeholder seen: bootstrapper() about to take the lock *)
| Recheck         (* lock held: is __spec_class__ still a placeholder? *)
| Enter           (* bootstrap(cls): first the parent (hasattr(parent, '__spec_class__')) *)
| Inherit         (* SpecClassMetadata.for_class: read the parent's metadata *)
| Body (k : nat) (acc : meta)      (* build_attr_spec for the k-th attribute: getattr *)
| Consume (k : nat) (acc : meta)   (* ... setattr(cls, attr, default) *)
| Publish (acc : meta)             (* spec_cls.__spec_class__ = metadata *)
| PublishF                         (* spec_cls.__dataclass_fields__ = metadata.attrs *)
| Register                         (* register_methods *)
| Release                          (* leave `with _BOOTSTRAP_LOCK` in bootstrapper *)
| Reread                           (* placeholder.__get__: return owner.__spec_class__ *)
| WCheck                           (* __new__ wrapper: isinstance(cls.__spec_class__, SpecClassMetadata) *)
| WAcq (w : nat)                   (* wrapper of class w: with _BOOTSTRAP_LOCK *)
| WRemove (w : nat)                (* remove the wrapper if still installed *)
| WRel (w : nat)
| WNext (w : nat)                  (* look __new__ up: the nearest wrapper still installed below class w *)
| ObsInst                          (* spec_cls.__new__ / __init__: the instance is built *)
| Done.

(* what a finished thread has observed *)
Record obs := mkO { o_meta : option meta; o_reg : bool; o_exc : bool }.

Record thread := mkT {
  t_inst : bool;      (* first use: instantiate (true) / read metadata (false) *)
  t_via : bool;       (* metadata read through __dataclass_fields__ *)
  t_tgt : nat;        (* class used *)
  t_cur : nat;        (* class whose placeholder / bootstrap is being executed; classes
                         t_cur+1 .. t_tgt wait in `Enter` for their parent *)
  t_ph : phase;
  t_seen : option meta;
  t_obs : option obs;
  t_w : nat }.        (* the class whose __new__ wrapper is running *)

(* a metadata read starts with the placeholder lookup; an instantiation starts with
   the lookup of __new__ (type.__call__), which finds a wrapper or not *)
Definition start (inst via : bool) (tgt : nat) : thread :=
  mkT inst via tgt tgt (if inst then WNext (S tgt) else Test) None None 0.

Record state := mkS { classes : list cls; lock : option (nat * nat); threads : list thread }.

Definition init_state (ct : table) (ts : list thread) : state := mkS (map init_cls ct) None ts.

Inductive ev :=
| ETest (c : nat) (fields hit : bool) | EAcq (depth : nat) | ERecheck (c : nat) (hit : bool)
| EEnter (c : nat) | EInherit (c : nat) | ERead (c n : nat) (decl : bool) | EConsume (c n : nat)
| EPublish (c : nat) | EPublishF (c : nat) | ERegister (c : nat) | ERel (depth : nat)
| EReread (c : nat) | EBodyEnd (c : nat) | EWCheck (ok : bool) | EWRemove (w : nat) (did : bool)
| EWNext (w : nat) (found : option nat) | EObs.

Definition set_ph (t : thread) (p : phase) : thread :=
  mkT (t_inst t) (t_via t) (t_tgt t) (t_cur t) p (t_seen t) (t_obs t) (t_w t).
Definition set_cur_ph (t : thread) (c : nat) (p : phase) : thread :=
  mkT (t_inst t) (t_via t) (t_tgt t) c p (t_seen t) (t_obs t) (t_w t).
Definition set_w_ph (t : thread) (w : nat) (p : phase) : thread :=
  mkT (t_inst t) (t_via t) (t_tgt t) (t_cur t) p (t_seen t) (t_obs t) w.
Definition finish (t : thread) (o : obs) : thread :=
  mkT (t_inst t) (t_via t) (t_tgt t) (t_cur t) Done (t_seen t) (Some o) (t_w t).

(* the placeholder lookup for class t_cur has returned (value in `seen`):
   continue in the caller — the waiting bootstrap of the child, or the use *)
Definition ret (t : thread) (m : option meta) : thread :=
  if Nat.ltb (t_cur t) (t_tgt t) then
    mkT (t_inst t) (t_via t) (t_tgt t) (S (t_cur t)) Inherit m (t_obs t) (t_w t)
  else if t_inst t then
    mkT (t_inst t) (t_via t) (t_tgt t) (t_cur t) WCheck m (t_obs t) (t_w t)
  else
    mkT (t_inst t) (t_via t) (t_tgt t) (t_cur t) Done m (Some (mkO m true false)) (t_w t).

(* which placeholder does the lookup at class c test: __dataclass_fields__ only
   for the use itself, __spec_class__ for parents and for the wrapper *)
Definition tests_fields (t : thread) : bool :=
  t_via t && negb (t_inst t) && Nat.eqb (t_cur t) (t_tgt t).

Definition acquire (i : nat) (l : option (nat * nat)) : option (nat * nat) :=
  match l with
  | None => Some (i, 1)
  | Some (j, d) => if Nat.eqb i j then Some (i, S d) else None
  end.
Definition release (l : option (nat * nat)) : option (nat * nat) :=
  match l with
  | Some (j, S (S d)) => Some (j, S d)
  | _ => None
  end.
Definition depth_of (l : option (nat * nat)) : nat := match l with Some (_, d) => d | None => 0 end.

Definition inherit_meta (ct : table) (cl : list cls) (c : nat) : meta :=
  let d := getd c ct in
  match c with
  | O => mkM [] (match c_key d with Some k => k | None => None end) (c_frozen d)
  | S p =>
    match pub (getc p cl) with
    | Some m => mkM (m_attrs m) (match c_key d with Some k => k | None => m_key m end) (c_frozen d)
    | None => mkM [] (match c_key d with Some k => k | None => None end) (c_frozen d)
    end
  end.

(* type.__getattribute__(cls, '__new__') along the MRO below class w: the nearest
   class whose wrapper is still installed *)
Fixpoint next_wrap (cl : list cls) (w : nat) : option nat :=
  match w with
  | O => None
  | S p => if wrap (getc p cl) then Some p else next_wrap cl p
  end.

Definition all_reg (cl : list cls) (c : nat) : bool :=
  forallb (fun x => reg (getc x cl)) (seq 0 (S c)).

(* one step of thread t (index i); None = not enabled *)
Definition tstep (g : bool) (ct : table) (i : nat) (cl : list cls) (l : option (nat * nat)) (t : thread)
  : option (list cls * option (nat * nat) * thread * ev) :=
  let c := t_cur t in
  let k0 := getc c cl in
  match t_ph t with
  | Test =>
    let f := tests_fields t in
    let hit := if f then negb (pubf k0) else match pub k0 with None => true | Some _ => false end in
    if hit then Some (cl, l, set_ph t (if g then Acq else Enter), ETest c f true)
    else Some (cl, l, ret t (pub k0), ETest c f false)
  | Acq =>
    match acquire i l with
    | Some l' => Some (cl, Some l', set_ph t Recheck, EAcq (snd l'))
    | None => None
    end
  | Recheck =>
    match pub k0 with
    | None => Some (cl, l, set_ph t Enter, ERecheck c true)
    | Some _ => Some (cl, l, set_ph t Release, ERecheck c false)
    end
  | Enter =>
    match c with
    | O => Some (cl, l, set_ph t Inherit, EEnter c)
    | S p => Some (cl, l, set_cur_ph t p Test, EEnter c)
    end
  | Inherit => Some (cl, l, set_ph t (Body 0 (inherit_meta ct cl c)), EInherit c)
  | Body k acc =>
    match nth_error (c_decls (getd c ct)) k with
    | None => Some (cl, l, set_ph t (Publish acc), EBodyEnd c)
    | Some (n, _) =>
      let x := lookup cl c n in
      let acc' := mkM (upd (m_attrs acc) n (spec_of c x)) (m_key acc) (m_frozen acc) in
      if is_decl x then Some (cl, l, set_ph t (Consume k acc'), ERead c n true)
      else Some (cl, l, set_ph t (Body (S k) acc'), ERead c n false)
    end
  | Consume k acc =>
    match nth_error (c_decls (getd c ct)) k with
    | None => Some (cl, l, set_ph t (Body (S k) acc), EConsume c 0)
    | Some (n, _) =>
      let k1 := mkCls (pub k0) (pubf k0) (set_cell n (consume_cell (lookup cl c n)) (dict k0)) (reg k0) (wrap k0) in
      Some (setc c k1 cl, l, set_ph t (Body (S k) acc), EConsume c n)
    end
  | Publish acc =>
    Some (setc c (mkCls (Some acc) (pubf k0) (dict k0) (reg k0) (wrap k0)) cl, l, set_ph t PublishF, EPublish c)
  | PublishF =>
    Some (setc c (mkCls (pub k0) true (dict k0) (reg k0) (wrap k0)) cl, l, set_ph t Register, EPublishF c)
  | Register =>
    Some (setc c (mkCls (pub k0) (pubf k0) (dict k0) true (wrap k0)) cl, l,
          set_ph t (if g then Release else Reread), ERegister c)
  | Release => Some (cl, release l, set_ph t Reread, ERel (depth_of (release l)))
  | Reread => Some (cl, l, ret t (pub k0), EReread c)
  | WCheck =>
    match t_seen t with
    | None => Some (cl, l, finish t (mkO None false true), EWCheck false)
    | Some _ => Some (cl, l, set_ph t (WAcq (t_w t)), EWCheck true)
    end
  | WAcq w =>
    match acquire i l with
    | Some l' => Some (cl, Some l', set_ph t (WRemove w), EAcq (snd l'))
    | None => None
    end
  | WRemove w =>
    let kw := getc w cl in
    Some (setc w (mkCls (pub kw) (pubf kw) (dict kw) (reg kw) false) cl, l, set_ph t (WRel w), EWRemove w (wrap kw))
  | WRel w => Some (cl, release l, set_ph t (WNext w), ERel (depth_of (release l)))
  | WNext w =>
    (* the call continues in the __new__ found below class w: a wrapper that is still
       installed runs (and tests cls.__spec_class__ again), otherwise the instance is built *)
    match next_wrap cl w with
    | Some p => Some (cl, l, set_w_ph t p Test, EWNext w (Some p))
    | None => Some (cl, l, set_ph t ObsInst, EWNext w None)
    end
  | ObsInst => Some (cl, l, finish t (mkO (pub k0) (all_reg cl c) false), EObs)
  | Done => None
  end.

Fixpoint set_nth {A} (n : nat) (v : A) (l : list A) : list A :=
  match l, n with
  | [], _ => []
  | _ :: t, O => v :: t
  | x :: t, S n' => x :: set_nth n' v t
  end.

Definition step (g : bool) (ct : table) (i : nat) (s : state) : option (state * ev) :=
  match nth_error (threads s) i with
  | None => None
  | Some t =>
    match tstep g ct i (classes s) (lock s) t with
    | None => None
    | Some (cl, l, t', e) => Some (mkS cl l (set_nth i t' (threads s)), e)
    end
  end.

(* a schedule is any list of thread indices; naming a thread that cannot move is a no-op *)
Fixpoint run (g : bool) (ct : table) (sched : list nat) (s : state) : state * list (nat * ev) :=
  match sched with
  | [] => (s, [])
  | i :: rest =>
    match step g ct i s with
    | None => run g ct rest s
    | Some (s', e) => let '(s'', tr) := run g ct rest s' in (s'', (i, e) :: tr)
    end
  end.

(* ---------------------------------------------------------------- __new__ entry *)
(* the class dictionary entry '__new__' and what removing the wrapper does *)
Inductive newent := NWrapper (orig : option nat) | NUser (u : nat) | NPass | NNone.

(* spec_class.__call__: orig_new = own __new__ if defined; install the wrapper *)
Definition install (e : option nat) : newent := NWrapper e.
Definition eager (e : option nat) : newent := match e with Some u => NUser u | None => NNone end.

(* wrapper removal; parent_obj: super(spec_cls, spec_cls).__new__ is object.__new__ *)
Definition remove_wrapper (parent_obj : bool) (e : newent) : newent :=
  match e with
  | NWrapper (Some u) => NUser u
  | NWrapper None => if parent_obj then NPass else NNone
  | x => x
  end.

(* which user __new__ (if any) constructs instances of the leaf of a chain of
   entries (leaf first); None = object.__new__ *)
Fixpoint resolve_new (es : list newent) : option nat :=
  match es with
  | [] => None
  | NUser u :: _ => Some u
  | NPass :: _ => None
  | NWrapper (Some u) :: _ => Some u
  | NWrapper None :: t => resolve_new t
  | NNone :: t => resolve_new t
  end.
