(* C20 — model of spec_classes/utils/mutation.py:_modules_copyable and of the
   code that uses it (protect_via_deepcopy and, through it, every copying
   helper of the library).  No proofs in this file.

   Granularity: one step of a thread = one source line of __new__ / __enter__ /
   __exit__ (a `line` event of sys.settrace; a thread "at pc p" is about to
   execute line p), i.e. at most one access to the shared state.  The `with`
   lines are visited twice: on entry (acquire) and on normal exit (release).

   Line numbers are those of /repo at the commit dd9390a
   `fix: _modules_copyable initialises its shared state once` (later commits
   shift them; the harness maps lines to these names by their source text):

     __new__   64 NChk     if cls.__instance__ is None:
               65 NAcq         with cls.__instance_lock__:
               66 NChk2            if cls.__instance__ is None:
               67 NAlloc               instance = super().__new__(cls)
               68 NSetLock             instance.lock = RLock()
               69 NSetRc               instance.refcount = 0
               70 NSetPt               instance.patched_table = False
               71 NPub                 cls.__instance__ = instance
               65 NRel         (leaving the with block: release)
               72 NRet     return cls.__instance__
     __enter__ 75 EAcq     with self.lock:
               76 EInc         self.refcount += 1
               77 EGet         module_reductor = copyreg.dispatch_table.get(ModuleType, MISSING)
               78 ETest        if module_reductor is MISSING:
               79 ESet             copyreg.dispatch_table[ModuleType] = lambda module: "passthrough"
               80 EFlag            self.patched_table = True
               75 ERel     (release)
     __exit__  83 XAcq     with self.lock:
               84 XDec         self.refcount -= 1
               85 XTest        if self.patched_table and self.refcount == 0:
               86 XDel             del copyreg.dispatch_table[ModuleType]
               87 XFlag            self.patched_table = False
               83 XRel     (release)

   The code as it was BEFORE the fix (variant `reinit = true`, used only for
   the single-threaded witness C20_reinit_refuted):

     __new__   OChk     if not hasattr(cls, "__instance__"):
               OMake        cls.__instance__ = super().__new__(cls, *args, **kwargs)
               ORet     return cls.__instance__
     __init__  ILock    self.lock = RLock()
               IRc      self.refcount = 0
               IPt      self.patched_table = False                           *)
From Coq Require Import List ZArith Bool Arith.
Import ListNotations.
Open Scope Z_scope.

(* projection of copyreg.dispatch_table: what is registered for ModuleType *)
Inductive entry : Set := NoEntry | Ours | Users.

Definition entry_eqb (a b : entry) : bool :=
  match a, b with
  | NoEntry, NoEntry | Ours, Ours | Users, Users => true
  | _, _ => false
  end.

(* What a thread does, seen from the copy-protection code.
   Use m     the copier reaches a leaf; m = the leaf is a module, so
             copy.deepcopy consults copyreg.dispatch_table (TypeError if absent)
   Yield     a scheduling point in user code (Probe.__deepcopy__ of the harness)
   Raise     an exception is raised here (__post_copy__, transform, callback,
             an injected exception in library code outside the protocol)
   Nest ab b `with _modules_copyable(): <b>` (protect_via_deepcopy); `ab` = id
             of a protocol line of THIS use at which an exception is injected
   Try b     b runs under a handler: an exception raised in b stops here
             (operation boundary of a history)                               *)
Inductive item : Set :=
| Use (m : bool)
| Yield
| Raise
| Nest (ab : option nat) (body : list item)
| Try (body : list item).

Inductive pc : Set :=
| NChk | NAcq | NChk2 | NAlloc | NSetLock | NSetRc | NSetPt | NPub | NRel | NRet
| EAcq | EInc | EGet | ETest (missing : bool) | ESet | EFlag | ERel
| XAcq | XDec | XTest | XDel | XFlag | XRel
| OChk | OMake | ORet | ILock | IRc | IPt.

Definition pc_id (p : pc) : nat :=
  match p with
  | NChk => 0 | NAcq => 1 | NChk2 => 2 | NAlloc => 3 | NSetLock => 4 | NSetRc => 5
  | NSetPt => 6 | NPub => 7 | NRel => 8 | NRet => 9
  | EAcq => 10 | EInc => 11 | EGet => 12 | ETest _ => 13 | ESet => 14 | EFlag => 15 | ERel => 16
  | XAcq => 17 | XDec => 18 | XTest => 19 | XDel => 20 | XFlag => 21 | XRel => 22
  | OChk => 23 | OMake => 24 | ORet => 25 | ILock => 26 | IRc => 27 | IPt => 28
  end%nat.

(* data of the use of the context manager a thread is executing *)
Record pdata : Set := mkpd { p_ab : option nat; p_body : list item; p_rest : list item; p_exc : bool }.

Inductive ctl : Set :=
| Run                          (* executing the items of t_code *)
| Unwind                       (* an exception is propagating *)
| Proto (p : pc) (d : pdata).  (* about to execute protocol line p *)

Inductive frame : Set :=
| FNest (ab : option nat) (rest : list item)   (* inside a with block; afterwards: rest *)
| FTry (rest : list item).

Record thread : Set := mkth {
  t_ctl : ctl; t_code : list item; t_stack : list frame;
  t_fails : nat;       (* module copies that raised TypeError *)
  t_crashed : bool     (* an exception left the thread's program *)
}.

(* process-wide state *)
Record shared : Set := mksh {
  tbl : entry;                 (* copyreg.dispatch_table[ModuleType] *)
  created : bool;              (* cls.__instance__ is not None *)
  clock : option nat;          (* holder of cls.__instance_lock__ (Lock) *)
  rc : Z;                      (* instance.refcount *)
  patched : bool;              (* instance.patched_table *)
  lock : option (nat * nat)    (* instance.lock (RLock): owner, depth *)
}.

Definition set_tbl e s := mksh e (created s) (clock s) (rc s) (patched s) (lock s).
Definition set_created b s := mksh (tbl s) b (clock s) (rc s) (patched s) (lock s).
Definition set_clock c s := mksh (tbl s) (created s) c (rc s) (patched s) (lock s).
Definition set_rc z s := mksh (tbl s) (created s) (clock s) z (patched s) (lock s).
Definition set_patched b s := mksh (tbl s) (created s) (clock s) (rc s) b (lock s).
Definition set_lock l s := mksh (tbl s) (created s) (clock s) (rc s) (patched s) l.

(* threading.RLock *)
Definition acquire (t : nat) (l : option (nat * nat)) : option (option (nat * nat)) :=
  match l with
  | None => Some (Some (t, 1%nat))
  | Some (o, d) => if Nat.eqb o t then Some (Some (o, S d)) else None   (* None: blocks *)
  end.
Definition release (l : option (nat * nat)) : option (nat * nat) :=
  match l with
  | Some (o, S (S d)) => Some (o, S d)
  | _ => None
  end.

Inductive outcome : Set :=
| Goto (s : shared) (p : pc)
| Entered (s : shared)      (* __enter__ returned *)
| Exited (s : shared)       (* __exit__ returned *)
| Raised (s : shared)       (* the line raised (after the cleanup of the enclosing with) *)
| Blocked.

(* one line of the protocol, executed by thread t *)
Definition line_step (t : nat) (s : shared) (p : pc) : outcome :=
  match p with
  | NChk => Goto s (if created s then NRet else NAcq)
  | NAcq => match clock s with
            | None => Goto (set_clock (Some t) s) NChk2
            | Some _ => Blocked
            end
  | NChk2 => Goto s (if created s then NRel else NAlloc)
  | NAlloc => Goto s NSetLock        (* the new object is private to the thread ... *)
  | NSetLock => Goto s NSetRc
  | NSetRc => Goto s NSetPt
  | NSetPt => Goto s NPub
  | NPub => Goto (set_lock None (set_patched false (set_rc 0 (set_created true s)))) NRel
                                     (* ... until it is published, fully initialised *)
  | NRel => Goto (set_clock None s) NRet
  | NRet => Goto s EAcq              (* protect_via_deepcopy: the with statement calls __enter__ *)
  | EAcq => match acquire t (lock s) with
            | Some l => Goto (set_lock l s) EInc
            | None => Blocked
            end
  | EInc => Goto (set_rc (rc s + 1) s) EGet
  | EGet => Goto s (ETest (entry_eqb (tbl s) NoEntry))
  | ETest m => Goto s (if m then ESet else ERel)
  | ESet => Goto (set_tbl Ours s) EFlag
  | EFlag => Goto (set_patched true s) ERel
  | ERel => Entered (set_lock (release (lock s)) s)
  | XAcq => match acquire t (lock s) with
            | Some l => Goto (set_lock l s) XDec
            | None => Blocked
            end
  | XDec => Goto (set_rc (rc s - 1) s) XTest
  | XTest => Goto s (if patched s && (rc s =? 0) then XDel else XRel)
  | XDel => match tbl s with
            | NoEntry => Raised (set_lock (release (lock s)) s)     (* KeyError *)
            | _ => Goto (set_tbl NoEntry s) XFlag
            end
  | XFlag => Goto (set_patched false s) XRel
  | XRel => Exited (set_lock (release (lock s)) s)
  (* the code before the fix *)
  | OChk => Goto s (if created s then ORet else OMake)
  | OMake => Goto (set_created true s) ORet
  | ORet => Goto s ILock
  | ILock => Goto (set_lock None s) IRc       (* a new, unlocked RLock replaces the old one *)
  | IRc => Goto (set_rc 0 s) IPt
  | IPt => Goto (set_patched false s) EAcq
  end.

(* an exception raised INSTEAD of line p (sys.settrace injection): the with
   statement enclosing p releases its lock, except on its own two lines
   (before the acquisition nothing is held; the release line is outside the
   protected range, so the lock stays held — observed on CPython 3.12) *)
Definition abort_cleanup (p : pc) (s : shared) : shared :=
  match p with
  | NChk2 | NAlloc | NSetLock | NSetRc | NSetPt | NPub => set_clock None s
  | EInc | EGet | ETest _ | ESet | EFlag | XDec | XTest | XDel | XFlag =>
      set_lock (release (lock s)) s
  | _ => s
  end.

(* protocol lines at which an injected exception is harmless: everything
   before the first write to shared state that __exit__ would have to undo
   (all of __new__ except its release line, the first two lines of __enter__) *)
Definition safe_abort (k : nat) : bool :=
  (Nat.leb k 7 || Nat.eqb k 9 || Nat.eqb k 10 || Nat.eqb k 11)%bool.
Definition any_abort (k : nat) : bool := true.
Definition no_abort (k : nat) : bool := false.

Inductive label : Set :=
| LAdmin      (* no protocol line executed (control transfer only) *)
| LUse        (* a leaf was copied *)
| LYield
| LLine       (* one protocol line *)
| LEntered    (* last line of __enter__ *)
| LExited     (* last line of __exit__ *)
| LAbort      (* exception injected at / raised by a protocol line *)
| LCaught     (* a handler (operation boundary) caught an exception *)
| LTryEnd.    (* a Try block ended normally *)

Fixpoint nest_depth (st : list frame) : nat :=
  match st with
  | [] => 0
  | FNest _ _ :: r => S (nest_depth r)
  | FTry _ :: r => nest_depth r
  end.

Definition fires (allow : nat -> bool) (d : pdata) (p : pc) : bool :=
  match p_ab d with
  | Some k => Nat.eqb k (pc_id p) && allow k
  | None => false
  end.

Definition with_ctl c th := mkth c (t_code th) (t_stack th) (t_fails th) (t_crashed th).

(* one step of thread number t whose local state is th.
   reinit: model the code before the fix; allow: which injections are honoured *)
Definition tstep (reinit : bool) (allow : nat -> bool) (t : nat) (s : shared) (th : thread)
  : option (shared * thread * label) :=
  match t_ctl th with
  | Proto p d =>
      if fires allow d p
      then Some (abort_cleanup p s, with_ctl Unwind th, LAbort)
      else match line_step t s p with
           | Blocked => None
           | Goto s' p' => Some (s', with_ctl (Proto p' d) th, LLine)
           | Entered s' =>
               Some (s', mkth Run (p_body d) (FNest (p_ab d) (p_rest d) :: t_stack th)
                              (t_fails th) (t_crashed th), LEntered)
           | Exited s' =>
               Some (s', if p_exc d then with_ctl Unwind th
                         else mkth Run (p_rest d) (t_stack th) (t_fails th) (t_crashed th), LExited)
           | Raised s' => Some (s', with_ctl Unwind th, LAbort)
           end
  | Run =>
      match t_code th with
      | Use m :: rest =>
          if m && entry_eqb (tbl s) NoEntry
          then Some (s, mkth Unwind rest (t_stack th) (S (t_fails th)) (t_crashed th), LUse)
          else Some (s, mkth Run rest (t_stack th) (t_fails th) (t_crashed th), LUse)
      | Yield :: rest => Some (s, mkth Run rest (t_stack th) (t_fails th) (t_crashed th), LYield)
      | Raise :: rest => Some (s, with_ctl Unwind th, LAdmin)
      | Nest ab b :: rest =>
          Some (s, with_ctl (Proto (if reinit then OChk else NChk) (mkpd ab b rest false)) th, LAdmin)
      | Try b :: rest =>
          Some (s, mkth Run b (FTry rest :: t_stack th) (t_fails th) (t_crashed th), LAdmin)
      | [] =>
          match t_stack th with
          | FNest ab rest :: st =>
              Some (s, mkth (Proto XAcq (mkpd ab [] rest false)) [] st (t_fails th) (t_crashed th), LAdmin)
          | FTry rest :: st => Some (s, mkth Run rest st (t_fails th) (t_crashed th), LTryEnd)
          | [] => None      (* finished *)
          end
      end
  | Unwind =>
      match t_stack th with
      | FNest ab rest :: st =>
          Some (s, mkth (Proto XAcq (mkpd ab [] rest true)) [] st (t_fails th) (t_crashed th), LAdmin)
      | FTry rest :: st => Some (s, mkth Run rest st (t_fails th) (t_crashed th), LCaught)
      | [] => Some (s, mkth Run [] [] (t_fails th) true, LCaught)
      end
  end.

Record state : Set := mkst { sh : shared; ths : list thread }.

Fixpoint upd {A} (i : nat) (x : A) (l : list A) : list A :=
  match l, i with
  | [], _ => []
  | _ :: r, O => x :: r
  | y :: r, S j => y :: upd j x r
  end.

(* thread t of state st takes one step (None: it is blocked, finished or absent) *)
Definition step (reinit : bool) (allow : nat -> bool) (st : state) (t : nat) : option (state * label) :=
  match nth_error (ths st) t with
  | None => None
  | Some th =>
      match tstep reinit allow t (sh st) th with
      | None => None
      | Some (s', th', l) => Some (mkst s' (upd t th' (ths st)), l)
      end
  end.

Definition init_entry (user : bool) : entry := if user then Users else NoEntry.
Definition init_shared (user created0 : bool) : shared := mksh (init_entry user) created0 None 0 false None.
Definition init_thread (prog : list item) : thread := mkth Run prog [] 0 false.
Definition init_state (user created0 : bool) (progs : list (list item)) : state :=
  mkst (init_shared user created0) (map init_thread progs).

(* every interleaving: any thread that can move may move next *)
Inductive reachable (reinit : bool) (allow : nat -> bool) (s0 : state) : state -> Prop :=
| reach_init : reachable reinit allow s0 s0
| reach_step : forall s t s' l,
    reachable reinit allow s0 s -> step reinit allow s t = Some (s', l) ->
    reachable reinit allow s0 s'.

(* executable: run a schedule (list of thread numbers); a blocked/finished
   thread's turn is skipped *)
Fixpoint run_sched (reinit : bool) (allow : nat -> bool) (s : state) (sched : list nat) : state :=
  match sched with
  | [] => s
  | t :: r => match step reinit allow s t with
              | Some (s', _) => run_sched reinit allow s' r
              | None => run_sched reinit allow s r
              end
  end.
