(* C20 — what the property means, independently of how the protocol works.

   A snapshot of the process: for every thread whether it is outside every
   copy, in transit (executing the entry/exit code of an outermost copy) or
   inside a copy (between a completed __enter__ and the start of the matching
   __exit__), together with what copyreg.dispatch_table holds for ModuleType.

   The property: (1) when every thread is outside, the table holds what it
   held before the library was used (a user's own registration is still there,
   the library's pass-through entry is not); (2) while some thread is inside,
   some entry is present, so copying a module does not raise; (3) no module
   copy ever failed.                                                        *)
From Coq Require Import List Bool Arith.
From SC Require Import Conc.ModulesCopyableModel.
Import ListNotations.

Inductive status : Set := Outside | Transit | Inside.

Definition status_eqb (a b : status) : bool :=
  match a, b with
  | Outside, Outside | Transit, Transit | Inside, Inside => true
  | _, _ => false
  end.

Definition quiescent (sts : list status) : Prop := Forall (fun x => x = Outside) sts.
Definition some_inside (sts : list status) : Prop := Exists (fun x => x = Inside) sts.

Definition snap_ok (init : entry) (sts : list status) (e : entry) : Prop :=
  (quiescent sts -> e = init) /\ (some_inside sts -> e <> NoEntry).

(* executable twin, used by the property oracle of the correspondence check
   on the IMPLEMENTATION's observations *)
Definition snap_okb (init : entry) (sts : list status) (e : entry) : bool :=
  (if forallb (fun x => status_eqb x Outside) sts then entry_eqb e init else true) &&
  (if existsb (fun x => status_eqb x Inside) sts then negb (entry_eqb e NoEntry) else true).

(* abstraction of a model thread *)
Definition status_of (th : thread) : status :=
  match nest_depth (t_stack th) with
  | S _ => Inside
  | O => match t_ctl th with Proto _ _ => Transit | _ => Outside end
  end.

Definition statuses (s : state) : list status := map status_of (ths s).

(* programs in which a module is only ever copied under the protection of the
   context manager (what the library's copying code does: protect_via_deepcopy
   returns a module as is and copies everything else inside `with`) *)
Fixpoint guarded (inside : bool) (i : item) : bool :=
  match i with
  | Use m => implb m inside
  | Yield | Raise => true
  | Nest _ b => forallb (guarded true) b
  | Try b => forallb (guarded inside) b
  end.
Definition guarded_prog (p : list item) : bool := forallb (guarded false) p.

Definition finished (th : thread) : Prop :=
  t_ctl th = Run /\ t_code th = [] /\ t_stack th = [].
