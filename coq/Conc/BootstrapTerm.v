(* C19 — termination of the guarded protocol: a potential that every step of every
   thread strictly decreases.  Hence no schedule makes more than Phi(initial state)
   moves (no livelock) and, with progress, every state can be run to completion. *)
From Coq Require Import List Arith Bool Lia.
From SC Require Import Conc.BootstrapModel Conc.BootstrapSpec Conc.BootstrapLemmas
  Conc.BootstrapInv Conc.BootstrapStep Conc.BootstrapProofs.
Import ListNotations.

Section Term.
  Variable ct : table.
  Hypothesis wf : wf_table ct.

  Definition Lc (c : nat) : nat := length (c_decls (getd c ct)).
  Definition body (c : nat) : nat := 2 * Lc c + 8.
  Fixpoint full (c : nat) : nat :=
    match c with O => body 0 + 5 | S p => full p + body (S p) + 5 end.
  Definition sumb (a n : nat) : nat := list_sum (map body (seq a n)).
  (* bodies of the classes that wait for their parent *)
  Definition after (t : thread) : nat := sumb (S (t_cur t)) (t_tgt t - t_cur t).
  Definition K (t : thread) : nat := full (t_tgt t) + 8.
  Definition wpot (t : thread) (w : nat) : nat := w * K t + 2.
  Definition tail (t : thread) : nat := if t_inst t then 6 + wpot t (t_w t) else 1.

  Definition loc (c : nat) (p : phase) : nat :=
    match p with
    | Test => full c | Acq => full c - 1 | Recheck => full c - 2 | Enter => full c - 3
    | Inherit => body c - 1
    | Body k _ => 2 * (Lc c - k) + 6 | Consume k _ => 2 * (Lc c - k) + 5
    | Publish _ => 5 | PublishF => 4 | Register => 3 | Release => 2 | Reread => 1
    | _ => 0
    end.

  Definition pot (t : thread) : nat :=
    match t_ph t with
    | WCheck => 5 + wpot t (t_w t)
    | WAcq w => 4 + wpot t w | WRemove w => 3 + wpot t w | WRel w => 2 + wpot t w
    | WNext w => 1 + wpot t w
    | ObsInst => 1
    | Done => 0
    | p => loc (t_cur t) p + after t + tail t
    end.

  Lemma full_ge c : 13 <= full c.
  Proof. destruct c; simpl; unfold body; lia. Qed.

  Lemma sumb_S a n : sumb a (S n) = body a + sumb (S a) n.
  Proof. reflexivity. Qed.

  Lemma after_split cur tgt : cur < tgt ->
    sumb (S cur) (tgt - cur) = body (S cur) + sumb (S (S cur)) (tgt - S cur).
  Proof. intro H. replace (tgt - cur) with (S (tgt - S cur)) by lia. apply sumb_S. Qed.

  Ltac norm Hp :=
    unfold pot, after, tail, wpot, K, ret, set_ph, set_cur_ph, set_w_ph, finish;
    cbn [t_ph t_cur t_tgt t_inst t_w t_seen t_obs t_via];
    rewrite ?Hp; cbn [loc].

  Lemma pot_ret t m : t_cur t <= t_tgt t -> pot (ret t m) < 1 + after t + tail t.
  Proof.
    intro Hle. unfold ret. destruct (Nat.ltb_spec (t_cur t) (t_tgt t)) as [L|L].
    - unfold pot, after, tail, wpot, K; cbn [t_ph t_cur t_tgt t_inst t_w loc].
      rewrite (after_split _ _ L). unfold body. lia.
    - destruct (t_inst t) eqn:Ei;
        unfold pot, after, tail, wpot, K; cbn [t_ph t_cur t_tgt t_inst t_w loc]; rewrite ?Ei; lia.
  Qed.

  Lemma tstep_pot s i t cl' l' t' e :
    Inv ct s -> nth_error (threads s) i = Some t ->
    tstep true ct i (classes s) (lock s) t = Some (cl', l', t', e) -> pot t' < pot t.
  Proof.
    intros HI Hi H. pose proof HI as [_ [_ [HT _]]].
    destruct (HT i t Hi) as [[[Hle Hwl] [Hlt [_ Hf]]] _].
    pose proof (full_ge (t_cur t)) as Hfg.
    unfold tstep in H. destruct (t_ph t) eqn:Hp.
    - (* Test *)
      match type of H with (if ?b then _ else _) = _ => destruct b end; inversion H; subst; clear H.
      + norm Hp. lia.
      + pose proof (pot_ret t (pub (getc (t_cur t) (classes s))) Hle) as Hr.
        revert Hr. norm Hp. lia.
    - destruct (acquire i (lock s)); inversion H; subst; clear H. norm Hp. lia.
    - destruct (pub (getc (t_cur t) (classes s))); inversion H; subst; clear H; norm Hp; lia.
    - (* Enter *)
      destruct (t_cur t) as [|p] eqn:Ec; inversion H; subst; clear H.
      + norm Hp. rewrite Ec. cbn [loc full]. unfold body. lia.
      + norm Hp. rewrite Ec. cbn [loc full].
        assert (Hs : sumb (S p) (t_tgt t - p) = body (S p) + sumb (S (S p)) (t_tgt t - S p))
          by (apply after_split; lia).
        rewrite Hs. pose proof (full_ge p). lia.
    - inversion H; subst; clear H. norm Hp. unfold body. lia.
    - (* Body *)
      fold (decls ct (t_cur t)) in H.
      destruct (nth_error (decls ct (t_cur t)) k) as [[n x]|] eqn:En.
      + assert (Hk : k < Lc (t_cur t)) by (unfold Lc; apply nth_error_Some; unfold decls in En; congruence).
        destruct (is_decl (lookup (classes s) (t_cur t) n)); inversion H; subst; clear H; norm Hp; lia.
      + inversion H; subst; clear H. norm Hp. lia.
    - (* Consume *)
      destruct (holder_facts ct s i t HI Hi) as [_ [_ [_ [_ Hc]]]]; [rewrite Hp; simpl; lia|].
      unfold cur_ok in Hc. rewrite Hp in Hc. destruct Hc as [[n [x [En _]]] _].
      assert (Hk : k < Lc (t_cur t)) by (unfold Lc; apply nth_error_Some; unfold decls in En; congruence).
      unfold decls in En. rewrite En in H. inversion H; subst; clear H. norm Hp. lia.
    - inversion H; subst; clear H. norm Hp. lia.
    - inversion H; subst; clear H. norm Hp. lia.
    - inversion H; subst; clear H. norm Hp. lia.
    - inversion H; subst; clear H. norm Hp. lia.
    - (* Reread *)
      inversion H; subst; clear H.
      pose proof (pot_ret t (pub (getc (t_cur t) (classes s))) Hle) as Hr.
      revert Hr. norm Hp. lia.
    - (* WCheck *)
      destruct (t_seen t); inversion H; subst; clear H; norm Hp; lia.
    - destruct (acquire i (lock s)); inversion H; subst; clear H. norm Hp. lia.
    - inversion H; subst; clear H. norm Hp. lia.
    - inversion H; subst; clear H. norm Hp. lia.
    - (* WNext *)
      destruct Hf as [Ec [Hw _]].
      destruct (next_wrap (classes s) w) as [p|] eqn:En; inversion H; subst; clear H.
      + destruct (next_wrap_some _ _ _ En) as [Hpw _].
        norm Hp. rewrite Ec, Nat.sub_diag. change (sumb (S (t_tgt t)) 0) with 0.
        assert (Hm : (S p) * (full (t_tgt t) + 8) <= w * (full (t_tgt t) + 8))
          by (apply Nat.mul_le_mono_r; lia).
        rewrite Nat.mul_succ_l in Hm. destruct (t_inst t); lia.
      + norm Hp. lia.
    - inversion H; subst; clear H. norm Hp. lia.
    - discriminate.
  Qed.

  Definition Phi (s : state) : nat := list_sum (map pot (threads s)).

  Lemma sum_set_nth (l : list thread) i t t' :
    nth_error l i = Some t ->
    list_sum (map pot (set_nth i t' l)) + pot t = list_sum (map pot l) + pot t'.
  Proof.
    revert i; induction l as [|a l IH]; intros [|i] H; simpl in *; try discriminate.
    - inversion H; subst. lia.
    - specialize (IH i H). lia.
  Qed.

  Theorem step_decreases s i s' e :
    Inv ct s -> step true ct i s = Some (s', e) -> Phi s' < Phi s.
  Proof.
    intros HI H. unfold step in H.
    destruct (nth_error (threads s) i) as [t|] eqn:Hi; [|discriminate].
    destruct (tstep true ct i (classes s) (lock s) t) as [[[[cl' l'] t'] e']|] eqn:Ht; [|discriminate].
    inversion H; subst; clear H. unfold Phi; simpl.
    pose proof (tstep_pot s i t _ _ _ _ HI Hi Ht). pose proof (sum_set_nth (threads s) i t t' Hi). lia.
  Qed.

  (* no schedule, however long, makes more than Phi moves *)
  Theorem moves_bounded sched : forall s,
    Inv ct s -> length (snd (run true ct sched s)) + Phi (fst (run true ct sched s)) <= Phi s.
  Proof.
    induction sched as [|i rest IH]; intros s HI; simpl; [lia|].
    destruct (step true ct i s) as [[s1 e]|] eqn:Es; [|apply IH; auto].
    specialize (IH s1 (step_inv ct wf s i s1 e HI Es)).
    pose proof (step_decreases s i s1 e HI Es).
    destruct (run true ct rest s1) as [s' tr']. simpl in *. lia.
  Qed.

  Definition is_done (t : thread) : bool := match t_ph t with Done => true | _ => false end.

  Lemma not_all_done (l : list thread) :
    forallb is_done l = false -> exists i t, nth_error l i = Some t /\ t_ph t <> Done.
  Proof.
    induction l as [|a l IH]; simpl; [discriminate|].
    destruct (is_done a) eqn:E; simpl; intro H.
    - destruct (IH H) as [i [t [Hi Hd]]]. exists (S i), t. auto.
    - exists 0, a. split; auto. unfold is_done in E. intro Hp. rewrite Hp in E. discriminate.
  Qed.

  (* every reachable state can be run to completion *)
  Theorem can_finish : forall n s,
    Phi s <= n -> Inv ct s ->
    exists sched, forallb is_done (threads (fst (run true ct sched s))) = true.
  Proof.
    induction n as [|n IH]; intros s Hn HI.
    - destruct (forallb is_done (threads s)) eqn:E; [exists []; exact E|].
      exfalso. destruct (not_all_done _ E) as [i [t [Hi Hd]]].
      destruct (progress ct s HI) as [j Hj]; [exists i, t; auto|].
      destruct (step true ct j s) as [[s1 e]|] eqn:Es; [|congruence].
      pose proof (step_decreases s j s1 e HI Es). lia.
    - destruct (forallb is_done (threads s)) eqn:E; [exists []; exact E|].
      destruct (not_all_done _ E) as [i [t [Hi Hd]]].
      destruct (progress ct s HI) as [j Hj]; [exists i, t; auto|].
      destruct (step true ct j s) as [[s1 e]|] eqn:Es; [|congruence].
      pose proof (step_decreases s j s1 e HI Es).
      destruct (IH s1 ltac:(lia) (step_inv ct wf s j s1 e HI Es)) as [sched Hs].
      exists (j :: sched). simpl. rewrite Es. destruct (run true ct sched s1). exact Hs.
  Qed.
End Term.

Theorem guarded_moves_bounded ct ts sched :
  wf_table ct -> fresh_threads ct ts ->
  length (snd (run true ct sched (init_state ct ts))) <= Phi ct (init_state ct ts).
Proof.
  intros wf Hf. pose proof (moves_bounded ct wf sched _ (init_inv ct ts Hf)). lia.
Qed.

Theorem guarded_can_finish ct ts sched :
  wf_table ct -> fresh_threads ct ts ->
  let s := fst (run true ct sched (init_state ct ts)) in
  exists more, forallb is_done (threads (fst (run true ct more s))) = true.
Proof.
  intros wf Hf s. apply (can_finish ct wf (Phi ct s)); [lia|].
  apply run_inv; auto. apply init_inv; auto.
Qed.
