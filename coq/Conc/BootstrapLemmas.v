(* C19 — auxiliary lemmas: list access, and the sequential meaning of the
   steps of the bootstrap body. *)
From Coq Require Import List Arith Bool Lia.
From SC Require Import Conc.BootstrapModel Conc.BootstrapSpec.
Import ListNotations.

(* ------------------------------------------------------------ access *)
Lemma length_setc c v cl : length (setc c v cl) = length cl.
Proof. revert c; induction cl; intros [|c]; simpl; auto. Qed.

Lemma getc_setc_same c v cl : c < length cl -> getc c (setc c v cl) = v.
Proof.
  unfold getc. revert c; induction cl; intros [|c] H; simpl in *; try lia; auto.
  apply IHcl; lia.
Qed.

Lemma getc_setc_other c c' v cl : c <> c' -> getc c' (setc c v cl) = getc c' cl.
Proof.
  unfold getc. revert c c'; induction cl; intros [|c] [|c'] H; simpl in *; auto; try congruence.
Qed.

Lemma length_set_nth {A} n (v : A) l : length (set_nth n v l) = length l.
Proof. revert n; induction l; intros [|n]; simpl; auto. Qed.

Lemma nth_error_set_nth_same {A} n (v : A) l :
  n < length l -> nth_error (set_nth n v l) n = Some v.
Proof. revert n; induction l; intros [|n] H; simpl in *; try lia; auto. apply IHl; lia. Qed.

Lemma nth_error_set_nth_other {A} n m (v : A) l :
  n <> m -> nth_error (set_nth n v l) m = nth_error l m.
Proof.
  revert n m; induction l; intros [|n] [|m] H; simpl in *; auto; try congruence.
Qed.

Lemma getc_init ct c : c < length ct -> getc c (map init_cls ct) = init_cls (getd c ct).
Proof.
  intro H. unfold getc, getd.
  rewrite nth_indep with (d' := init_cls dflt_desc) by (rewrite map_length; lia).
  apply map_nth.
Qed.

Lemma getd_in ct c : c < length ct -> In (getd c ct) ct.
Proof. intro H. unfold getd. apply nth_In; auto. Qed.

(* ------------------------------------------------------------ dictionaries *)
Definition part_dict (ds : list (nat * cell)) (k : nat) : list (nat * cell) :=
  map (fun p => (fst p, consume_cell (snd p))) (firstn k ds) ++ skipn k ds.

Lemma part_dict_0 ds : part_dict ds 0 = ds.
Proof. reflexivity. Qed.

Lemma part_dict_all ds k : length ds <= k -> part_dict ds k = map (fun p => (fst p, consume_cell (snd p))) ds.
Proof.
  intro H. unfold part_dict. rewrite firstn_all2, skipn_all2 by lia. apply app_nil_r.
Qed.

Lemma find_cell_notin n d : ~ In n (map fst d) -> find_cell n d = CAbsent.
Proof.
  induction d as [|[m x] d IH]; simpl; auto. intro H.
  destruct (Nat.eqb_spec n m); [subst; tauto|]. apply IH; tauto.
Qed.

Lemma find_cell_app_notin n d1 d2 : ~ In n (map fst d1) -> find_cell n (d1 ++ d2) = find_cell n d2.
Proof.
  induction d1 as [|[m x] d1 IH]; simpl; auto. intro H.
  destruct (Nat.eqb_spec n m); [subst; tauto|]. apply IH; tauto.
Qed.

Lemma set_cell_app_notin n v d1 d2 :
  ~ In n (map fst d1) -> set_cell n v (d1 ++ d2) = d1 ++ set_cell n v d2.
Proof.
  induction d1 as [|[m x] d1 IH]; simpl; auto. intro H.
  destruct (Nat.eqb_spec n m); [subst; tauto|]. f_equal. apply IH; tauto.
Qed.

Lemma nth_error_decomp {A} (l : list A) k x :
  nth_error l k = Some x -> firstn (S k) l = firstn k l ++ [x] /\ skipn k l = x :: skipn (S k) l.
Proof.
  revert k; induction l as [|a l IH]; intros [|k] H; simpl in *; try discriminate.
  - inversion H; auto.
  - destruct (IH k H) as [H1 H2]. rewrite H1. auto.
Qed.

Lemma map_fst_consume ds :
  map fst (map (fun p : nat * cell => (fst p, consume_cell (snd p))) ds) = map fst ds.
Proof. rewrite map_map. reflexivity. Qed.

Lemma NoDup_prefix_notin (ds : list (nat * cell)) k n x :
  NoDup (map fst ds) -> nth_error ds k = Some (n, x) -> ~ In n (map fst (firstn k ds)).
Proof.
  intros ND H. destruct (nth_error_decomp _ _ _ H) as [_ H2].
  rewrite <- (firstn_skipn k ds), H2, map_app in ND. simpl in ND.
  apply NoDup_remove_2 in ND. intro Hin. apply ND. apply in_or_app. auto.
Qed.

(* reading the k-th declaration from the partially consumed dictionary *)
Lemma find_cell_part ds k n x :
  NoDup (map fst ds) -> nth_error ds k = Some (n, x) -> find_cell n (part_dict ds k) = x.
Proof.
  intros ND H. unfold part_dict.
  rewrite find_cell_app_notin.
  - destruct (nth_error_decomp _ _ _ H) as [_ H2]. rewrite H2. simpl. now rewrite Nat.eqb_refl.
  - rewrite map_fst_consume. eapply NoDup_prefix_notin; eauto.
Qed.

(* overwriting it with its default *)
Lemma set_cell_part ds k n x :
  NoDup (map fst ds) -> nth_error ds k = Some (n, x) ->
  set_cell n (consume_cell x) (part_dict ds k) = part_dict ds (S k).
Proof.
  intros ND H. unfold part_dict.
  rewrite set_cell_app_notin by (rewrite map_fst_consume; eapply NoDup_prefix_notin; eauto).
  destruct (nth_error_decomp _ _ _ H) as [H1 H2]. rewrite H1, H2, map_app. simpl.
  rewrite Nat.eqb_refl. now rewrite <- app_assoc.
Qed.

(* a cell that is not a declaration is its own default *)
Lemma consume_not_decl x : is_decl x = false -> consume_cell x = x.
Proof. destruct x; simpl; auto; discriminate. Qed.

Lemma part_dict_skip ds k n x :
  nth_error ds k = Some (n, x) -> is_decl x = false -> part_dict ds (S k) = part_dict ds k.
Proof.
  intros H Hd. unfold part_dict.
  destruct (nth_error_decomp _ _ _ H) as [H1 H2]. rewrite H1, H2, map_app. simpl.
  rewrite consume_not_decl by auto. now rewrite <- app_assoc.
Qed.

(* ------------------------------------------------------------ metadata *)
Lemma build_snoc ct c ds k n x inh :
  nth_error ds k = Some (n, x) ->
  build ct c (firstn (S k) ds) inh = upd (build ct c (firstn k ds) inh) n (spec_of c (seen_seq ct c n x)).
Proof.
  intro H. destruct (nth_error_decomp _ _ _ H) as [H1 _]. rewrite H1.
  unfold build. rewrite fold_left_app. reflexivity.
Qed.

(* the inherited part of the metadata of class c *)
Definition inh_meta (ct : table) (c : nat) : meta :=
  let d := getd c ct in
  match c with
  | O => mkM [] (key_of d None) (c_frozen d)
  | S p => mkM (m_attrs (seq_meta ct p)) (key_of d (m_key (seq_meta ct p))) (c_frozen d)
  end.

Definition part_meta (ct : table) (c k : nat) : meta :=
  mkM (build ct c (firstn k (c_decls (getd c ct))) (m_attrs (inh_meta ct c)))
      (m_key (inh_meta ct c)) (m_frozen (inh_meta ct c)).

Lemma part_meta_0 ct c : part_meta ct c 0 = inh_meta ct c.
Proof. unfold part_meta. simpl. destruct (inh_meta ct c); reflexivity. Qed.

Lemma part_meta_all ct c k : length (c_decls (getd c ct)) <= k -> part_meta ct c k = seq_meta ct c.
Proof.
  intro H. unfold part_meta. rewrite firstn_all2 by lia.
  destruct c; reflexivity.
Qed.

(* ------------------------------------------------------------ lookups *)
(* ancestors that are bootstrapped answer like the specification's anc_cell *)
Lemma lookup_final ct cl p n :
  (forall x, x <= p -> dict (getc x cl) = final_dict (getd x ct)) ->
  lookup cl p n = anc_cell ct (S p) n.
Proof.
  induction p as [|p IH]; intro H; simpl.
  - rewrite (H 0) by lia. destruct (find_cell n (final_dict (getd 0 ct))); reflexivity.
  - rewrite (H (S p)) by lia.
    destruct (find_cell n (final_dict (getd (S p) ct))); try reflexivity.
    apply IH. intros; apply H; lia.
Qed.

Lemma lookup_own ct cl c n x :
  find_cell n (dict (getc c cl)) = x ->
  (forall y, y < c -> dict (getc y cl) = final_dict (getd y ct)) ->
  lookup cl c n = seen_seq ct c n x.
Proof.
  intros Hf Ha. destruct c as [|p]; simpl; rewrite Hf.
  - destruct x; reflexivity.
  - destruct x; try reflexivity. simpl.
    rewrite (lookup_final ct cl p n); [reflexivity|]. intros; apply Ha; lia.
Qed.

(* a lookup only depends on the dictionaries of the class and its ancestors *)
Lemma lookup_ext cl cl' c n :
  (forall y, y <= c -> dict (getc y cl) = dict (getc y cl')) -> lookup cl c n = lookup cl' c n.
Proof.
  induction c as [|c IH]; intro H; simpl.
  - now rewrite (H 0) by lia.
  - rewrite (H (S c)) by lia. destruct (find_cell n (dict (getc (S c) cl'))); auto; apply IH; intros; apply H; lia.
Qed.
