(* C20 — proofs, part 1: the inductive invariant of the transition system of
   Conc/ModulesCopyableModel.v (fixed code, injections honoured at the safe
   protocol lines) and its preservation by every step of every thread. *)
From Coq Require Import List ZArith Bool Arith Lia.
From SC Require Import Conc.ModulesCopyableModel Conc.ModulesCopyableSpec.
Import ListNotations.
Open Scope Z_scope.

(* ------------------------------------------------------------ lists *)
Lemma nth_error_upd_same {A} (l : list A) i x y :
  nth_error l i = Some y -> nth_error (upd i x l) i = Some x.
Proof. revert i; induction l; intros [|i] H; simpl in *; try discriminate; auto. Qed.

Lemma nth_error_upd_other {A} (l : list A) i j x :
  i <> j -> nth_error (upd i x l) j = nth_error l j.
Proof.
  revert i j; induction l; intros [|i] [|j] H; simpl; auto; try congruence.
Qed.

Lemma nth_error_upd {A} (l : list A) i j x y :
  nth_error l i = Some y ->
  nth_error (upd i x l) j = if Nat.eqb i j then Some x else nth_error l j.
Proof.
  intros H. destruct (Nat.eqb_spec i j).
  - subst. eapply nth_error_upd_same; eauto.
  - apply nth_error_upd_other; auto.
Qed.

(* ------------------------------------------------------------ counting *)
Definition pc_contrib (p : pc) : Z :=
  match p with
  | EGet | ETest _ | ESet | EFlag | ERel | XAcq | XDec => 1
  | _ => 0
  end.

(* what a thread has added to the reference count and not yet taken back *)
Definition contrib (th : thread) : Z :=
  Z.of_nat (nest_depth (t_stack th)) +
  match t_ctl th with Proto p _ => pc_contrib p | _ => 0 end.

Fixpoint total (l : list thread) : Z :=
  match l with [] => 0 | th :: r => contrib th + total r end.

Lemma contrib_nonneg th : 0 <= contrib th.
Proof. unfold contrib. destruct (t_ctl th) as [| |p d]; try destruct p; simpl; lia. Qed.

Lemma total_nonneg l : 0 <= total l.
Proof. induction l; simpl; [lia|]. pose proof (contrib_nonneg a). lia. Qed.

Lemma total_upd l : forall i th th',
  nth_error l i = Some th -> total (upd i th' l) = total l - contrib th + contrib th'.
Proof.
  induction l; intros [|i] th th' H; simpl in *; try discriminate.
  - inversion H; subst. lia.
  - rewrite (IHl _ _ _ H). lia.
Qed.

Lemma total_ge_one l i th : nth_error l i = Some th -> contrib th <= total l.
Proof.
  revert i; induction l; intros [|i] H; simpl in *; try discriminate.
  - inversion H; subst. pose proof (total_nonneg l). lia.
  - specialize (IHl _ H). pose proof (contrib_nonneg a). lia.
Qed.

Lemma total_ge_two l i j thi thj :
  i <> j -> nth_error l i = Some thi -> nth_error l j = Some thj ->
  contrib thi + contrib thj <= total l.
Proof.
  revert i j; induction l; intros [|i] [|j] N Hi Hj; simpl in *; try discriminate; try congruence.
  - inversion Hi; subst. pose proof (total_ge_one _ _ _ Hj). lia.
  - inversion Hj; subst. pose proof (total_ge_one _ _ _ Hi). lia.
  - assert (i <> j) by congruence. specialize (IHl _ _ H Hi Hj). pose proof (contrib_nonneg a). lia.
Qed.

Lemma total_zero l : total l = 0 -> forall i th, nth_error l i = Some th -> contrib th = 0.
Proof.
  intros H i th Hi. pose proof (total_ge_one _ _ _ Hi). pose proof (contrib_nonneg th). lia.
Qed.

(* ------------------------------------------------------------ invariant *)
Definition holdsL (p : pc) : bool :=
  match p with
  | EInc | EGet | ETest _ | ESet | EFlag | ERel | XDec | XTest | XDel | XFlag | XRel => true
  | _ => false
  end.
Definition holdsC (p : pc) : bool :=
  match p with
  | NChk2 | NAlloc | NSetLock | NSetRc | NSetPt | NPub | NRel => true
  | _ => false
  end.
Definition creating (p : pc) : bool :=
  match p with NAlloc | NSetLock | NSetRc | NSetPt | NPub => true | _ => false end.
Definition needs_inst (p : pc) : bool :=
  match p with
  | NChk | NAcq | NChk2 | NAlloc | NSetLock | NSetRc | NSetPt | NPub => false
  | OChk | OMake | ORet | ILock | IRc | IPt => false
  | _ => true
  end.
Definition old_pc (p : pc) : bool :=
  match p with OChk | OMake | ORet | ILock | IRc | IPt => true | _ => false end.

Section Inv.
  Variable user : bool.

  (* outside the critical sections the table and the flag are a function of
     (user's registration present, counter positive) *)
  Definition stableP (n : Z) (s : shared) : Prop :=
    if user then tbl s = Users /\ patched s = false
    else if 0 <? n then tbl s = Ours /\ patched s = true
         else tbl s = NoEntry /\ patched s = false.

  (* inside a critical section, by line *)
  Definition tab_at (s : shared) (p : pc) : Prop :=
    match p with
    | EInc | ERel | XDec | XRel => stableP (rc s) s
    | EGet => stableP (rc s - 1) s
    | ETest m => stableP (rc s - 1) s /\ m = entry_eqb (tbl s) NoEntry
    | ESet => user = false /\ rc s = 1 /\ tbl s = NoEntry /\ patched s = false
    | EFlag => user = false /\ rc s = 1 /\ tbl s = Ours /\ patched s = false
    | XTest => stableP (rc s + 1) s
    | XDel => user = false /\ rc s = 0 /\ tbl s = Ours /\ patched s = true
    | XFlag => user = false /\ rc s = 0 /\ tbl s = NoEntry /\ patched s = true
    | _ => True
    end.

  Definition pc_ok (s : shared) (i : nat) (p : pc) : Prop :=
    old_pc p = false /\
    (holdsL p = true -> lock s = Some (i, 1%nat)) /\
    (holdsC p = true -> clock s = Some i) /\
    (creating p = true -> created s = false) /\
    (needs_inst p = true -> created s = true) /\
    tab_at s p.

  Definition local_ok (s : shared) (i : nat) (th : thread) : Prop :=
    match t_ctl th with Proto p _ => pc_ok s i p | _ => True end /\
    (nest_depth (t_stack th) <> 0%nat -> created s = true).

  Definition holder_ok (l : list thread) (lk : option (nat * nat)) : Prop :=
    match lk with
    | None => True
    | Some (i, d) => d = 1%nat /\ exists th p dd,
        nth_error l i = Some th /\ t_ctl th = Proto p dd /\ holdsL p = true
    end.
  Definition cholder_ok (l : list thread) (c : option nat) : Prop :=
    match c with
    | None => True
    | Some i => exists th p dd, nth_error l i = Some th /\ t_ctl th = Proto p dd /\ holdsC p = true
    end.

  Definition global_ok (s : shared) (l : list thread) : Prop :=
    rc s = total l /\
    (lock s = None -> stableP (rc s) s) /\
    holder_ok l (lock s) /\
    cholder_ok l (clock s) /\
    (created s = false -> rc s = 0 /\ lock s = None).

  Definition Inv (st : state) : Prop :=
    global_ok (sh st) (ths st) /\
    forall i th, nth_error (ths st) i = Some th -> local_ok (sh st) i th.

  Lemma tab_at_nohold s p : holdsL p = false -> tab_at s p.
  Proof. destruct p; simpl; intros; try discriminate; auto. Qed.

  Lemma holdsL_needs_inst p : holdsL p = true -> needs_inst p = true.
  Proof. destruct p; simpl; intros; try discriminate; auto. Qed.

  Lemma holder_ok_upd_other l t th' i d :
    holder_ok l (Some (i, d)) -> i <> t -> holder_ok (upd t th' l) (Some (i, d)).
  Proof.
    simpl. intros (H1 & th & p & dd & H2 & H3) N. split; auto.
    exists th, p, dd. rewrite nth_error_upd_other; auto.
  Qed.

  Lemma holder_ok_upd_self l t th th' p dd :
    nth_error l t = Some th -> t_ctl th' = Proto p dd -> holdsL p = true ->
    holder_ok (upd t th' l) (Some (t, 1%nat)).
  Proof.
    simpl. intros. split; auto. exists th', p, dd. split; auto.
    eapply nth_error_upd_same; eauto.
  Qed.

  Lemma cholder_ok_upd_other l t th' i :
    cholder_ok l (Some i) -> i <> t -> cholder_ok (upd t th' l) (Some i).
  Proof.
    simpl. intros (th & p & dd & H2 & H3) N.
    exists th, p, dd. rewrite nth_error_upd_other; auto.
  Qed.

  Lemma cholder_ok_upd_self l t th th' p dd :
    nth_error l t = Some th -> t_ctl th' = Proto p dd -> holdsC p = true ->
    cholder_ok (upd t th' l) (Some t).
  Proof.
    simpl. intros. exists th', p, dd. split; auto.
    eapply nth_error_upd_same; eauto.
  Qed.

  (* how one step of thread t may change the shared state *)
  Inductive chg (t : nat) (s s' : shared) : Prop :=
  | chg_none : s' = s -> chg t s s'
  | chg_acqL : lock s = None -> s' = set_lock (Some (t, 1%nat)) s -> chg t s s'
  | chg_holder : lock s = Some (t, 1%nat) -> created s' = created s -> clock s' = clock s ->
                 chg t s s'
  | chg_acqC : clock s = None -> s' = set_clock (Some t) s -> chg t s s'
  | chg_relC : clock s = Some t -> s' = set_clock None s -> chg t s s'
  | chg_pub : clock s = Some t -> created s = false ->
              s' = set_lock None (set_patched false (set_rc 0 (set_created true s))) ->
              chg t s s'.

  (* ... and why it cannot disturb what another thread relies on *)
  Lemma others_kept t s s' j th :
    chg t s s' -> j <> t -> local_ok s j th -> local_ok s' j th.
  Proof.
    intros C N [H1 H2]. unfold local_ok.
    destruct (t_ctl th) as [| |p d] eqn:E.
    - split; auto. intros D. specialize (H2 D). destruct C; subst; simpl; auto; congruence.
    - split; auto. intros D. specialize (H2 D). destruct C; subst; simpl; auto; congruence.
    - destruct H1 as (O & HL & HC & CR & NI & TA).
      assert (HLN := holdsL_needs_inst p).
      assert (CRC : creating p = true -> holdsC p = true)
        by (destruct p; simpl; auto; discriminate).
      destruct C as [-> | L -> | L C1 C2 | L -> | L -> | L C1 ->]; simpl.
      + split; [unfold pc_ok; tauto | auto].
      + split; [|auto]. unfold pc_ok; simpl.
        destruct (holdsL p) eqn:HP; [rewrite (HL eq_refl) in L; discriminate|].
        pose proof (tab_at_nohold (set_lock (Some (t, 1%nat)) s) p HP).
        intuition discriminate.
      + split; [|intros D; rewrite C1; auto]. unfold pc_ok. rewrite C1, C2.
        destruct (holdsL p) eqn:HP.
        * rewrite (HL eq_refl) in L. inversion L. congruence.
        * pose proof (tab_at_nohold s' p HP). intuition discriminate.
      + split; [|auto]. unfold pc_ok; simpl.
        destruct (holdsC p) eqn:HP; [rewrite (HC eq_refl) in L; discriminate|].
        assert (tab_at (set_clock (Some t) s) p) by (destruct p; simpl in *; auto).
        intuition discriminate.
      + split; [|auto]. unfold pc_ok; simpl.
        destruct (holdsC p) eqn:HP; [rewrite (HC eq_refl) in L; inversion L; congruence|].
        assert (tab_at (set_clock None s) p) by (destruct p; simpl in *; auto).
        intuition discriminate.
      + split; [|intros D; auto].
        unfold pc_ok; simpl.
        destruct (needs_inst p) eqn:NP; [rewrite (NI eq_refl) in C1; discriminate|].
        destruct (holdsL p) eqn:HP; [specialize (HLN eq_refl); discriminate|].
        destruct (holdsC p) eqn:HCP; [rewrite (HC eq_refl) in L; inversion L; congruence|].
        pose proof (tab_at_nohold (set_lock None (set_patched false (set_rc 0 (set_created true s)))) p HP).
        destruct (creating p) eqn:CP; [specialize (CRC eq_refl); discriminate|].
        intuition discriminate.
  Qed.
End Inv.

Section Step.
  Variable user : bool.
  Notation local_ok := (local_ok user).
  Notation global_ok := (global_ok user).
  Notation stableP := (stableP user).

  Lemma holder_keep l lk t th th' :
    holder_ok l lk -> nth_error l t = Some th ->
    (forall p dd, t_ctl th = Proto p dd -> holdsL p = true ->
                  exists p' dd', t_ctl th' = Proto p' dd' /\ holdsL p' = true) ->
    holder_ok (upd t th' l) lk.
  Proof.
    intros H Ht K. destruct lk as [[i d]|]; simpl; auto.
    destruct (Nat.eq_dec i t) as [->|N].
    - destruct H as (D & x & p & dd & H1 & H2 & H3). rewrite Ht in H1. inversion H1; subst x.
      destruct (K _ _ H2 H3) as (p' & dd' & K1 & K2). subst d.
      eapply holder_ok_upd_self; eauto.
    - apply holder_ok_upd_other; auto.
  Qed.

  Lemma cholder_keep l c t th th' :
    cholder_ok l c -> nth_error l t = Some th ->
    (forall p dd, t_ctl th = Proto p dd -> holdsC p = true ->
                  exists p' dd', t_ctl th' = Proto p' dd' /\ holdsC p' = true) ->
    cholder_ok (upd t th' l) c.
  Proof.
    intros H Ht K. destruct c as [i|]; simpl; auto.
    destruct (Nat.eq_dec i t) as [->|N].
    - destruct H as (x & p & dd & H1 & H2 & H3). rewrite Ht in H1. inversion H1; subst x.
      destruct (K _ _ H2 H3) as (p' & dd' & K1 & K2).
      eapply cholder_ok_upd_self; eauto.
    - apply cholder_ok_upd_other; auto.
  Qed.

  Lemma inv_assemble s s' l t th th' :
    nth_error l t = Some th ->
    (forall i x, nth_error l i = Some x -> local_ok s i x) ->
    chg t s s' -> local_ok s' t th' -> global_ok s' (upd t th' l) ->
    global_ok s' (upd t th' l) /\
    (forall i x, nth_error (upd t th' l) i = Some x -> local_ok s' i x).
  Proof.
    intros Ht L C Lt G. split; auto. intros i x Hi.
    rewrite (nth_error_upd _ _ _ _ _ Ht) in Hi.
    destruct (Nat.eqb_spec t i).
    - inversion Hi; subst; auto.
    - eapply others_kept; eauto.
  Qed.
End Step.

(* ------------------------------------------------------------ one step keeps the invariant *)
Lemma global_intro user s l :
  rc s = total l -> (lock s = None -> stableP user (rc s) s) -> holder_ok l (lock s) ->
  cholder_ok l (clock s) -> (created s = false -> rc s = 0 /\ lock s = None) -> global_ok user s l.
Proof. unfold global_ok; tauto. Qed.

Ltac keep_tac :=
  simpl; intros; try discriminate;
  repeat match goal with H : Proto _ _ = Proto _ _ |- _ => inversion H; subst; clear H end;
  simpl in *; try discriminate; try (eexists; eexists; split; [reflexivity|reflexivity]).

Ltac fin user :=
  unfold local_ok, pc_ok, tab_at, stableP in *; simpl in *;
  destruct user; simpl in *;
  repeat match goal with
         | H : context [?a <? ?b] |- _ => destruct (Z.ltb_spec a b)
         | |- context [?a <? ?b] => destruct (Z.ltb_spec a b)
         end;
  solve [intuition (try discriminate; try congruence; try lia)].

Ltac g3_tac Ht G3 :=
  first [ exact I
        | refine (holder_keep _ _ _ _ _ G3 Ht _); solve [keep_tac]
        | eapply holder_ok_upd_self; [exact Ht | reflexivity | reflexivity] ].
Ltac g4_tac Ht G4 :=
  first [ exact I
        | refine (cholder_keep _ _ _ _ _ G4 Ht _); solve [keep_tac]
        | eapply cholder_ok_upd_self; [exact Ht | reflexivity | reflexivity] ].

Ltac gen_step user Ht L G3 G4 chgtac :=
  refine (inv_assemble user _ _ _ _ _ _ Ht L _ _ _);
  [ chgtac; solve [auto]
  | fin user
  | apply global_intro; simpl;
    try match goal with H : lock ?s = Some _ |- context [lock ?s] => rewrite H end;
    [ rewrite (total_upd _ _ _ _ Ht); unfold contrib; simpl; lia
    | fin user
    | g3_tac Ht G3
    | g4_tac Ht G4
    | fin user ] ].

Ltac inv_st ST := inversion ST; subst; clear ST.

Lemma tstep_inv user s l t th s' th' lb :
  global_ok user s l ->
  (forall i x, nth_error l i = Some x -> local_ok user s i x) ->
  nth_error l t = Some th ->
  tstep false safe_abort t s th = Some (s', th', lb) ->
  global_ok user s' (upd t th' l) /\
  (forall i x, nth_error (upd t th' l) i = Some x -> local_ok user s' i x).
Proof.
  intros G L Ht ST.
  pose proof (L _ _ Ht) as Lt.
  destruct G as (G1 & G2 & G3 & G4 & G5).
  unfold tstep in ST.
  destruct th as [c code stk fails crashed]; simpl in *.
  destruct c as [| |p d].
  - (* Run *)
    destruct code as [|[m| | |ab b|b] rest].
    + destruct stk as [|[ab rest|rest] st]; try discriminate; inv_st ST;
        gen_step user Ht L G3 G4 ltac:(apply chg_none).
    + destruct (m && entry_eqb (tbl s) NoEntry); inv_st ST;
        gen_step user Ht L G3 G4 ltac:(apply chg_none).
    + inv_st ST; gen_step user Ht L G3 G4 ltac:(apply chg_none).
    + inv_st ST; gen_step user Ht L G3 G4 ltac:(apply chg_none).
    + inv_st ST; gen_step user Ht L G3 G4 ltac:(apply chg_none).
    + inv_st ST; gen_step user Ht L G3 G4 ltac:(apply chg_none).
  - (* Unwind *)
    destruct stk as [|[ab rest|rest] st]; inv_st ST;
      gen_step user Ht L G3 G4 ltac:(apply chg_none).
  - (* a protocol line *)
    destruct Lt as [(O & HL & HC & CR & NI & TA) ND].
    pose proof (total_ge_one _ _ _ Ht) as GE. unfold contrib in GE; simpl in GE. rewrite <- G1 in GE.
    destruct (fires safe_abort d p) eqn:F.
    + (* an exception injected at a safe line *)
      assert (SA : safe_abort (pc_id p) = true).
      { unfold fires in F. destruct (p_ab d); try discriminate.
        apply andb_true_iff in F. destruct F as [F1 F2]. apply Nat.eqb_eq in F1. subst; auto. }
      inv_st ST.
      destruct p; simpl in SA; try discriminate; simpl in *.
      * gen_step user Ht L G3 G4 ltac:(apply chg_none).
      * gen_step user Ht L G3 G4 ltac:(apply chg_none).
      * gen_step user Ht L G3 G4 ltac:(apply chg_relC).
      * gen_step user Ht L G3 G4 ltac:(apply chg_relC).
      * gen_step user Ht L G3 G4 ltac:(apply chg_relC).
      * gen_step user Ht L G3 G4 ltac:(apply chg_relC).
      * gen_step user Ht L G3 G4 ltac:(apply chg_relC).
      * gen_step user Ht L G3 G4 ltac:(apply chg_relC).
      * gen_step user Ht L G3 G4 ltac:(apply chg_none).
      * gen_step user Ht L G3 G4 ltac:(apply chg_none).
      * assert (LK := HL eq_refl). rewrite LK in *. simpl.
        gen_step user Ht L G3 G4 ltac:(apply chg_holder).
    + clear F. destruct p; simpl in ST; simpl in O; try discriminate.
      * (* NChk *) destruct (created s) eqn:C; inv_st ST; gen_step user Ht L G3 G4 ltac:(apply chg_none).
      * (* NAcq *) destruct (clock s) eqn:C; try discriminate. inv_st ST.
        gen_step user Ht L G3 G4 ltac:(apply chg_acqC).
      * (* NChk2 *) destruct (created s) eqn:C; inv_st ST; gen_step user Ht L G3 G4 ltac:(apply chg_none).
      * (* NAlloc *) inv_st ST; gen_step user Ht L G3 G4 ltac:(apply chg_none).
      * (* NSetLock *) inv_st ST; gen_step user Ht L G3 G4 ltac:(apply chg_none).
      * (* NSetRc *) inv_st ST; gen_step user Ht L G3 G4 ltac:(apply chg_none).
      * (* NSetPt *) inv_st ST; gen_step user Ht L G3 G4 ltac:(apply chg_none).
      * (* NPub *) inv_st ST.
        assert (CF : created s = false) by auto. destruct (G5 CF) as [R0 L0].
        specialize (G2 L0).
        gen_step user Ht L G3 G4 ltac:(apply chg_pub).
      * (* NRel *) inv_st ST. gen_step user Ht L G3 G4 ltac:(apply chg_relC).
      * (* NRet *) inv_st ST. gen_step user Ht L G3 G4 ltac:(apply chg_none).
      * (* EAcq *) destruct (lock s) as [[o dd]|] eqn:LK; simpl in ST.
        { destruct (Nat.eqb_spec o t); [|discriminate]. subst o. exfalso.
          simpl in G3. destruct G3 as (_ & x & p & d0 & H1 & H2 & H3).
          rewrite Ht in H1. inversion H1; subst x. simpl in H2. inversion H2; subst. discriminate. }
        inv_st ST. gen_step user Ht L G3 G4 ltac:(apply chg_acqL).
      * (* EInc *) assert (LK := HL eq_refl). rewrite LK in *. inv_st ST.
        gen_step user Ht L G3 G4 ltac:(apply chg_holder).
      * (* EGet *) assert (LK := HL eq_refl). rewrite LK in *. inv_st ST.
        gen_step user Ht L G3 G4 ltac:(apply chg_holder).
      * (* ETest *) assert (LK := HL eq_refl). rewrite LK in *.
        destruct TA as [TA1 TA2]. destruct (tbl s) eqn:TB; simpl in TA2; subst missing; inv_st ST;
          gen_step user Ht L G3 G4 ltac:(apply chg_holder).
      * (* ESet *) assert (LK := HL eq_refl). rewrite LK in *. inv_st ST.
        gen_step user Ht L G3 G4 ltac:(apply chg_holder).
      * (* EFlag *) assert (LK := HL eq_refl). rewrite LK in *. inv_st ST.
        gen_step user Ht L G3 G4 ltac:(apply chg_holder).
      * (* ERel *) assert (LK := HL eq_refl). rewrite LK in *. inv_st ST.
        gen_step user Ht L G3 G4 ltac:(apply chg_holder).
      * (* XAcq *) destruct (lock s) as [[o dd]|] eqn:LK; simpl in ST.
        { destruct (Nat.eqb_spec o t); [|discriminate]. subst o. exfalso.
          simpl in G3. destruct G3 as (_ & x & p & d0 & H1 & H2 & H3).
          rewrite Ht in H1. inversion H1; subst x. simpl in H2. inversion H2; subst. discriminate. }
        inv_st ST. gen_step user Ht L G3 G4 ltac:(apply chg_acqL).
      * (* XDec *) assert (LK := HL eq_refl). rewrite LK in *. inv_st ST.
        gen_step user Ht L G3 G4 ltac:(apply chg_holder).
      * (* XTest *) assert (LK := HL eq_refl). rewrite LK in *.
        destruct (patched s) eqn:P; destruct (Z.eqb_spec (rc s) 0); simpl in ST; inv_st ST;
          gen_step user Ht L G3 G4 ltac:(apply chg_holder).
      * (* XDel *) assert (LK := HL eq_refl). rewrite LK in *.
        assert (TB : tbl s = Ours) by (simpl in TA; tauto). rewrite TB in ST. inv_st ST.
        gen_step user Ht L G3 G4 ltac:(apply chg_holder).
      * (* XFlag *) assert (LK := HL eq_refl). rewrite LK in *. inv_st ST.
        gen_step user Ht L G3 G4 ltac:(apply chg_holder).
      * (* XRel *) assert (LK := HL eq_refl). rewrite LK in *.
        destruct (p_exc d); inv_st ST; gen_step user Ht L G3 G4 ltac:(apply chg_holder).
Qed.

