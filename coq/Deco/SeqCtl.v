(* C17 — what the advertised control parameters of the sequence element helpers
   mean (reference semantics over plain lists; part of the meaning of "every
   advertised keyword reaches the underlying behaviour with the value given":
   an explicit False / 0 / None is a value, not "not given").  Read from the
   generated docstrings and from collections/sequences.py; no model behind it
   (the deep behaviour is the Inst model's subject) — used as an oracle on
   observed outcomes by Corr/SigCorr.v:check_ctl. *)
From Coq Require Import List Bool ZArith.
From SC Require Import Base.Res.
Import ListNotations.
Open Scope Z_scope.

Inductive cval := CI (z : Z) | CS (z : Z).       (* an int / a string *)
Definition cval_eqb (a b : cval) : bool :=
  match a, b with CI x, CI y | CS x, CS y => Z.eqb x y | _, _ => false end.

Inductive idxarg := IOmitted | INone | IInt (z : Z).
Inductive chelper := HWithItem | HUpdateItem | HTransformItem | HWithoutItem.

Record cargs := mkcargs {
  a_elem_int : bool;            (* List[int] (true) or List[str] (false) *)
  a_init : list cval;
  a_value : cval;               (* _value_or_index, or _item for with_<item> *)
  a_new : cval;                 (* _new_item for update_<item> *)
  a_by_index : option bool;     (* None: not given *)
  a_inplace : option bool;
  a_if : option bool;
  a_insert : option bool;
  a_index : idxarg
}.

Definition is_elem (elem_int : bool) (v : cval) : bool :=
  match v with CI _ => elem_int | CS _ => negb elem_int end.

(* l[i] with Python's negative indices *)
Definition norm_index (n i : Z) : option Z :=
  if (0 <=? i) && (i <? n) then Some i
  else if (i <? 0) && (- n <=? i) then Some (i + n) else None.

Fixpoint find_pos (v : cval) (l : list cval) (i : Z) : option Z :=
  match l with
  | [] => None
  | x :: t => if cval_eqb x v then Some i else find_pos v t (i + 1)
  end.

Fixpoint set_at (l : list cval) (i : Z) (f : cval -> cval) : list cval :=
  match l with
  | [] => []
  | x :: t => if i =? 0 then f x :: t else x :: set_at t (i - 1) f
  end.
Fixpoint del_at (l : list cval) (i : Z) : list cval :=
  match l with
  | [] => []
  | x :: t => if i =? 0 then t else x :: del_at t (i - 1)
  end.
(* list.insert: the index is clamped *)
Fixpoint ins_at (l : list cval) (i : Z) (v : cval) : list cval :=
  if i <=? 0 then v :: l else
  match l with
  | [] => [v]
  | x :: t => x :: ins_at t (i - 1) v
  end.
Definition py_insert (l : list cval) (i : Z) (v : cval) : list cval :=
  let n := Z.of_nat (length l) in
  ins_at l (if i <? 0 then Z.max 0 (i + n) else i) v.

Definition transform_fn (v : cval) : cval := match v with CI z => CI (z + 1000) | CS z => CS (z + 1000) end.

(* which element `_value_or_index` designates: by position when `_by_index` is
   True, by value when it is False, and when it is not given by position iff the
   value cannot be an element *)
Definition locate (a : cargs) : res Z :=
  let n := Z.of_nat (length (a_init a)) in
  let by_index := match a_by_index a with Some b => b | None => negb (is_elem (a_elem_int a) (a_value a)) end in
  if by_index then
    match a_value a with
    | CI i => match norm_index n i with Some j => Ok j | None => Err IndexErr end
    | CS _ => Err TypeErr
    end
  else match find_pos (a_value a) (a_init a) 0 with Some j => Ok j | None => Err ValueErr end.

(* the collection the helper computes *)
Definition computed (h : chelper) (a : cargs) : res (list cval) :=
  match h with
  | HWithoutItem => match locate a with Ok j => Ok (del_at (a_init a) j) | Err e => Err e end
  | HUpdateItem => match locate a with Ok j => Ok (set_at (a_init a) j (fun _ => a_new a)) | Err e => Err e end
  | HTransformItem => match locate a with Ok j => Ok (set_at (a_init a) j transform_fn) | Err e => Err e end
  | HWithItem =>
      let n := Z.of_nat (length (a_init a)) in
      match a_index a with
      | IOmitted => Ok (a_init a ++ [a_value a])
      | INone => Err TypeErr
      | IInt i =>
          if match a_insert a with Some true => true | _ => false end
          then Ok (py_insert (a_init a) i (a_value a))
          else match norm_index n i with
               | Some j => Ok (set_at (a_init a) j (fun _ => a_value a))
               | None => Err IndexErr
               end
      end
  end.

(* outcome, collection of the returned object, collection of the receiver
   afterwards, "the returned object is the receiver" *)
Definition expected (h : chelper) (a : cargs) : res (list cval) * list cval * bool :=
  match a_if a with
  | Some false => (Ok (a_init a), a_init a, true)
  | _ =>
      let inplace := match a_inplace a with Some true => true | _ => false end in
      match computed h a with
      | Ok l => (Ok l, if inplace then l else a_init a, inplace)
      | Err e => (Err e, a_init a, false)
      end
  end.
