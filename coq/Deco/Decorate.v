(* What @spec_class does to the dictionary of the decorated class (model; no
   proofs here).  Follows, branch by branch,
     spec_classes/spec_class.py: spec_class.__init__ (self.attrs, attrs_skip,
       inherit_annotations, private-name check), __call__ (lazy __new__ hook),
       bootstrap (managed attributes, key attribute, singular-name collision
       loop, __annotations__, method table), build_attr_spec (lifting of
       Attr/Field declarations), get_methods_for_spec_class,
       get_methods_for_attribute, register_methods/register_method;
     spec_classes/methods/base.py: MethodDescriptor.__get__ (dissolve);
     spec_classes/utils/naming.py (Naming.v).
   Scope: one class without spec-class parents (inheritance of attributes is
   the subject of C09). *)
From Coq Require Import String List Bool ZArith.
From SC Require Import Base.Res Deco.Naming.
Import ListNotations.
Open Scope string_scope.

(* ---------- the class as written by the user *)
Inductive ckind := CSeq | CMap | CSet.                 (* SequenceMutator / MappingMutator / SetMutator *)
Inductive aty := TScalar | TColl (k : ckind).          (* what bootstrap uses of a resolved annotation *)

Inductive mkind := KFunction | KStatic | KClassm | KProperty | KValue
                 | KDecl      (* Attr(...) or dataclasses.field(...) *)
                 | KOther.
Record member := mkmember { m_kind : mkind; m_uid : Z }.   (* m_uid: identity of the bound object *)

Definition is_decl (m : member) : bool := match m_kind m with KDecl => true | _ => false end.
(* class attribute access goes through __get__ and returns something else *)
Definition wraps (m : member) : bool :=
  match m_kind m with KStatic | KClassm | KFunction => true | _ => false end.

Record cls := mkcls {
  body : list (name * member);    (* the class's own __dict__ before decoration *)
  annots : list (name * aty)      (* its annotations, in order, resolved *)
}.

Record cfg := mkcfg {
  c_key : option name;
  c_init : bool; c_repr : bool; c_eq : bool;
  c_lazy : bool;                                   (* bootstrap=False *)
  c_attrs : option (list name);
  c_attrs_typed : option (list (name * option aty));   (* None : typing.Any *)
  c_attrs_skip : option (list name);
  c_overflow : option name
}.

(* ---------- the class dictionary afterwards *)
Inductive gen :=
| GCore (c : core)
| GTop (t : top)
| GScalar (p : sprefix) (a : name)
| GElem (p : eprefix) (a : name) (k : ckind) (item : name)
| GNewHook      (* the temporary __new__ of a lazily bootstrapped class *)
| GNewPlain.    (* the object.__new__ shim left behind by the hook *)

Inductive entry :=
| EUser (m : member)         (* the very object the body bound *)
| ELifted (m : member)       (* Attr/Field declaration replaced by its default (or MISSING) *)
| EUnwrapped (m : member)    (* the function inside the user's staticmethod (only __new__) *)
| EMeta                      (* __spec_class__, __dataclass_fields__, fresh __annotations__ *)
| EGen (g : gen) (built : bool).  (* built=false: a lazy MethodDescriptor; true: a function *)

Record aspec := mkaspec { a_ty : aty; a_item : name; a_helpers : bool }.

Record deco := mkdeco {
  d_dict : list (name * entry);
  d_attrs : list (name * aspec);     (* __spec_class__.attrs *)
  d_annots : list name               (* keys of __annotations__ afterwards *)
}.

(* the name a descriptor writes when it dissolves: MethodDescriptor.name *)
Definition gen_name (g : gen) : name :=
  match g with
  | GCore c => core_name c
  | GTop t => top_name t
  | GScalar p a => scalar_name p a
  | GElem p _ _ item => elem_name p item
  | GNewHook | GNewPlain => "__new__"
  end.

Definition is_function (g : gen) : bool :=
  match g with GTop _ | GScalar _ _ | GElem _ _ _ _ => false | _ => true end.

Definition olist {A} (o : option (list A)) : list A := match o with Some l => l | None => [] end.
Definition nonempty {A} (o : option (list A)) : bool := match o with Some (_ :: _) => true | _ => false end.
Definition is_some {A} (o : option A) : bool := match o with Some _ => true | None => false end.
Definition active (o : option name) : option name :=      (* `if name:` *)
  match o with Some n => if String.eqb n "" then None else Some n | None => None end.

(* spec_class.__init__: self.attrs *)
Definition dattrs (c : cfg) : list (name * option aty) :=
  let l1 := fold_left (fun acc a => dset a None acc) (olist (c_attrs c)) [] in
  let l2 := fold_left (fun acc p => dset (fst p) (snd p) acc) (olist (c_attrs_typed c)) l1 in
  match active (c_overflow c) with
  | Some o => dset o (Some (TColl CMap)) l2
  | None => l2
  end.

Definition inherit_annotations (c : cfg) : bool :=
  negb (nonempty (c_attrs c) || nonempty (c_attrs_typed c)) || is_some (c_attrs_skip c).

Definition managed_attrs (c : cfg) (k : cls) : list name :=
  (if inherit_annotations c
   then filter (fun a => negb (is_private a) && negb (memb a (olist (c_attrs_skip c)))) (map fst (annots k))
   else [])
  ++ map fst (dattrs c).

Definition attr_type (c : cfg) (k : cls) (a : name) : aty :=
  match lookup a (dattrs c) with
  | Some (Some t) => t
  | _ => match lookup a (annots k) with Some t => t | None => TScalar end
  end.

Definition is_coll (s : aspec) : bool := match a_ty s with TColl _ => true | TScalar => false end.

Section Deco.
  Variable singular : name -> option name.     (* inflect: an oracle *)

  Definition mk_aspec (c : cfg) (k : cls) (a : name) (helpers : bool) : aspec :=
    mkaspec (attr_type c k a) (get_singular_form singular a) helpers.

  Definition attrs0 (c : cfg) (k : cls) : list (name * aspec) :=
    fold_left (fun acc a => dset a (mk_aspec c k a true) acc) (managed_attrs c k) [].

  (* the key attribute gets a specification without helpers *)
  Definition attrs1 (c : cfg) (k : cls) : list (name * aspec) :=
    let a0 := attrs0 c k in
    match active (c_key c) with
    | Some key => if mem key a0 then a0 else a0 ++ [(key, mk_aspec c k key false)]
    | None => a0
    end.

  (* the collision loop of bootstrap (after `fix: collection attributes sharing
     one singular name ...`): `taken` = item names of earlier collections *)
  Fixpoint resolve (names : list name) (taken : list name) (todo : list (name * aspec))
    : res (list (name * aspec)) :=
    match todo with
    | [] => Ok []
    | (a, s) :: t =>
        if is_coll s then
          if memb (a_item s) names || memb (a_item s) taken then
            if negb (memb (item_fallback a) names) && negb (memb (item_fallback a) taken) then
              match resolve names (item_fallback a :: taken) t with
              | Ok r => Ok ((a, mkaspec (a_ty s) (item_fallback a) (a_helpers s)) :: r)
              | Err e => Err e
              end
            else Err RuntimeErr
          else
            match resolve names (a_item s :: taken) t with
            | Ok r => Ok ((a, s) :: r)
            | Err e => Err e
            end
        else
          match resolve names taken t with
          | Ok r => Ok ((a, s) :: r)
          | Err e => Err e
          end
    end.

  (* the loop before that fix: a singular is compared with attribute names only *)
  Fixpoint resolve_old (names : list name) (todo : list (name * aspec)) : res (list (name * aspec)) :=
    match todo with
    | [] => Ok []
    | (a, s) :: t =>
        if is_coll s && memb (a_item s) names then
          if negb (memb (item_fallback a) names) then
            match resolve_old names t with
            | Ok r => Ok ((a, mkaspec (a_ty s) (item_fallback a) (a_helpers s)) :: r)
            | Err e => Err e
            end
          else Err RuntimeErr
        else
          match resolve_old names t with
          | Ok r => Ok ((a, s) :: r)
          | Err e => Err e
          end
    end.

  (* get_methods_for_spec_class *)
  Definition core_methods (c : cfg) : list (name * gen) :=
    (if c_init c then [("__init__", GCore CInit)] else []) ++
    (if c_repr c then [("__repr__", GCore CRepr)] else []) ++
    (if c_eq c then [("__eq__", GCore CEq)] else []) ++
    [("__spec_class_init__", GCore CInit); ("__spec_class_repr__", GCore CRepr);
     ("__spec_class_eq__", GCore CEq);
     ("__getattr__", GCore CGetAttr); ("__setattr__", GCore CSetAttr);
     ("__delattr__", GCore CDelAttr); ("__deepcopy__", GCore CDeepCopy)] ++
    map (fun t => (top_name t, GTop t)) tops.

  (* get_methods_for_attribute + the method_name of each descriptor *)
  Definition attr_methods (p : name * aspec) : list (name * gen) :=
    let '(a, s) := p in
    if a_helpers s then
      map (fun q => (scalar_name q a, GScalar q a)) sprefixes ++
      match a_ty s with
      | TColl k => map (fun q => (elem_name q (a_item s), GElem q a k (a_item s))) eprefixes
      | TScalar => []
      end
    else [].

  (* every methods[name] = method assignment of bootstrap, in order *)
  Definition registrations (c : cfg) (attrs : list (name * aspec)) : list (name * gen) :=
    core_methods c ++ flat_map attr_methods attrs.

  Definition method_table (regs : list (name * gen)) : list (name * gen) :=
    fold_left (fun acc p => dset (fst p) (snd p) acc) regs [].

  (* register_method *)
  Definition register_method (d : list (name * entry)) (p : name * gen) : list (name * entry) :=
    let '(n, g) := p in
    if mem n d && negb (is_spec_reserved n) then d
    else dset n (EGen g (is_function g)) d.

  Definition register_methods (d : list (name * entry)) (ms : list (name * gen)) :=
    fold_left register_method ms d.

  (* build_attr_spec: an Attr/Field found under the name of an attribute that
     gets a specification is replaced by its default *)
  Definition lift_body (attrs : list (name * aspec)) (b : list (name * member)) : list (name * entry) :=
    map (fun p => (fst p, if mem (fst p) attrs && is_decl (snd p) then ELifted (snd p) else EUser (snd p))) b.

  Definition annots_after (k : cls) (attrs : list (name * aspec)) : list name :=
    map fst (annots k) ++ filter (fun a => negb (mem a (annots k))) (map fst attrs).

  (* the constructor is built for every class (get_methods_for_spec_class): its
     signature is (self, <key>, *, <attributes...>, **<overflow>); inspect.Signature
     refuses a name used twice (ValueError) *)
  Definition ctor_clash (c : cfg) : bool :=
    match active (c_key c), active (c_overflow c) with
    | Some k, Some o => String.eqb k o || String.eqb k "self" || String.eqb o "self"
    | Some k, None => String.eqb k "self"
    | None, Some o => String.eqb o "self"
    | None, None => false
    end.

  Definition decorate_with (resolver : list name -> list (name * aspec) -> res (list (name * aspec)))
             (c : cfg) (k : cls) : res deco :=
    if existsb is_private (map fst (dattrs c)) then Err ValueErr
    else
      let a1 := attrs1 c k in
      match resolver (map fst a1) a1 with
      | Err e => Err e
      | Ok a2 =>
          if ctor_clash c then Err ValueErr else
          let d0 := lift_body a1 (body k) in
          let d1 := if mem "__annotations__" d0 then d0 else dset "__annotations__" EMeta d0 in
          let d2 := dset "__dataclass_fields__" EMeta (dset "__spec_class__" EMeta d1) in
          let d3 := register_methods d2 (method_table (registrations c a2)) in
          let d4 := if c_lazy c then dset "__new__" (EGen GNewHook true) d3 else d3 in
          Ok (mkdeco d4 a2 (annots_after k a2))
      end.

  Definition decorate := decorate_with (fun names todo => resolve names [] todo).
  Definition decorate_old := decorate_with resolve_old.

  (* first instantiation of a lazily bootstrapped class: the __new__ hook
     removes itself (base class is `object` in this scope) and stores back what
     `spec_cls.__new__` evaluated to at decoration time: for a staticmethod
     (every function named __new__ is one) or classmethod that is the object
     obtained through the descriptor, not the descriptor itself (any object,
     falsy ones included, after `fix: lazy bootstrap hook restores a falsy
     __new__ ...`). *)
  Definition instantiate (c : cfg) (k : cls) (d : list (name * entry)) : list (name * entry) :=
    if c_lazy c then
      match lookup "__new__" (body k) with
      | Some m => dset "__new__" (if wraps m then EUnwrapped m else EUser m) d
      | None => dset "__new__" (EGen GNewPlain true) d
      end
    else d.

  (* MethodDescriptor.__get__ for the object found under `n` in the class
     dictionary: a descriptor stores the built function under its own name *)
  Definition use (d : list (name * entry)) (n : name) : list (name * entry) :=
    match lookup n d with
    | Some (EGen g false) => dset (gen_name g) (EGen g true) d
    | _ => d
    end.

  Definition use_all (d : list (name * entry)) (ns : list name) := fold_left use ns d.
End Deco.
