(* C16 — what decoration is documented to do, stated without following the
   control flow of bootstrap.  Read together with the property text:
   "four scalar helpers per managed attribute, four element helpers named
   after the singular form for list/dict/set attributes and three top-level
   helpers; private attributes are never managed and a singular-name collision
   falls back to <attr>_item or raises rather than shadowing". *)
From Coq Require Import String List Bool ZArith.
From SC Require Import Base.Res Deco.Naming Deco.Decorate.
Import ListNotations.
Open Scope string_scope.

(* -- which attributes the decorator arguments ask to be managed *)
Definition uses_annotations (c : cfg) : Prop :=
  (olist (c_attrs c) = [] /\ olist (c_attrs_typed c) = []) \/ c_attrs_skip c <> None.

Definition requested (c : cfg) (k : cls) (a : name) : Prop :=
  (uses_annotations c /\ In a (map fst (annots k)) /\ is_private a = false
   /\ ~ In a (olist (c_attrs_skip c)))
  \/ In a (olist (c_attrs c))
  \/ In a (map fst (olist (c_attrs_typed c)))
  \/ (c_overflow c = Some a /\ a <> "").

(* -- the declared type of an attribute: attrs_typed (unless Any), the overflow
      attribute is a dict, otherwise the annotation, otherwise Any *)
Definition declared (c : cfg) (k : cls) (a : name) : aty := attr_type c k a.

(* -- the documented helper names *)
Definition top3 : list name := ["update"; "transform"; "reset"].
Definition scalar4 (a : name) : list name :=
  ["with_" ++ a; "update_" ++ a; "transform_" ++ a; "reset_" ++ a].
Definition elem4 (item : name) : list name :=
  ["with_" ++ item; "update_" ++ item; "transform_" ++ item; "without_" ++ item].

Definition expected_helper (c : cfg) (k : cls) (item : name -> name) (n : name) : Prop :=
  In n top3
  \/ (exists a, requested c k a /\ In n (scalar4 a))
  \/ (exists a kd, requested c k a /\ declared c k a = TColl kd /\ In n (elem4 (item a))).

(* -- the documented naming rule for element helpers.  `names`: every attribute
      the class specification knows; `colls`: those of list/dict/set type. *)
Section Rule.
  Variable singular : name -> option name.

  Definition item_rule (names colls : list name) (item : name -> name) : Prop :=
    (forall a, In a colls ->
       item a = get_singular_form singular a \/ item a = a ++ "_item") /\
    (forall a, In a colls -> ~ In (item a) names) /\
    (forall a b, In a colls -> In b colls -> item a = item b -> a = b) /\
    (forall a, In a colls -> item a <> get_singular_form singular a ->
       In (get_singular_form singular a) names
       \/ exists b, In b colls /\ b <> a /\ item b = get_singular_form singular a).
End Rule.

(* -- user code is kept: the dictionary entry is the object the body bound *)
Definition kept (m : member) (e : option entry) : Prop := e = Some (EUser m).

(* names the library reserves for itself in the class dictionary *)
Definition reserved (n : name) : bool :=
  is_spec_reserved n || String.eqb n "__dataclass_fields__".

(* a generated public helper (as opposed to dunder infrastructure) *)
Definition helper_gen (g : gen) : bool :=
  match g with GTop _ | GScalar _ _ | GElem _ _ _ _ => true | _ => false end.
Definition gen_attr (g : gen) : option name :=
  match g with GScalar _ a | GElem _ a _ _ => Some a | _ => None end.
Definition is_helper_entry (e : option entry) : Prop :=
  exists g b, e = Some (EGen g b) /\ helper_gen g = true.

(* the init / repr / eq switches of the decorator *)
Definition core_enabled (c : cfg) (cr : core) : bool :=
  match cr with CInit => c_init c | CRepr => c_repr c | CEq => c_eq c | _ => true end.

(* a configuration that asks for a constructor with one name for two parameters:
   (self, <key>, *, ..., **<overflow>).  Decoration of such a class must raise. *)
Definition nonempty_name (o : option name) : option name :=
  match o with Some n => if String.eqb n "" then None else Some n | None => None end.
Definition contradictory_constructor (c : cfg) : bool :=
  match nonempty_name (c_key c), nonempty_name (c_overflow c) with
  | Some k, Some o => String.eqb k o || String.eqb k "self" || String.eqb o "self"
  | Some k, None => String.eqb k "self"
  | None, Some o => String.eqb o "self"
  | None, None => false
  end.
