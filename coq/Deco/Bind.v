(* CPython's binding of a call to a signature, for the parameter kinds that
   generated methods use: positional-or-keyword, keyword-only and **kwargs
   (model of Python semantics, validated by the C17 correspondence only; no
   proofs here).  Values and defaults are abstract integers. *)
From Coq Require Import String List Bool ZArith.
From SC Require Import Base.Res Deco.Naming.
Import ListNotations.
Open Scope string_scope.

Inductive pkind := PosOrKw | KwOnly | VarKw.
Record param := mkparam { p_name : name; p_kind : pkind; p_default : option Z }.
Definition sig := list param.

(* positional values and keyword pairs of one call; the receiver is the first positional value *)
Record call := mkcall { c_pos : list Z; c_kw : list (name * Z) }.

Definition is_varkw (p : param) : bool := match p_kind p with VarKw => true | _ => false end.
Definition is_posorkw (p : param) : bool := match p_kind p with PosOrKw => true | _ => false end.

(* a keyword can name every parameter except the ** catch-all *)
Definition named (ps : sig) (k : name) : bool :=
  existsb (fun p => negb (is_varkw p) && String.eqb (p_name p) k) ps.
Definition has_varkw (ps : sig) : bool := existsb is_varkw ps.

(* 1. positional arguments fill the positional-or-keyword parameters in order;
      left-over positionals: TypeError (there is no *args) *)
Fixpoint bind_pos (ps : sig) (args : list Z) {struct args} : res (list (name * Z)) :=
  match args with
  | [] => Ok []
  | v :: rest =>
      match ps with
      | p :: ps' =>
          if is_posorkw p then
            match bind_pos ps' rest with
            | Ok a => Ok ((p_name p, v) :: a)
            | Err e => Err e
            end
          else Err TypeErr
      | [] => Err TypeErr
      end
  end.

(* 2. keywords: a parameter name already filled -> "multiple values";
      an unknown name goes to **kwargs if there is one, else TypeError *)
Fixpoint bind_kw (ps : sig) (assigned extras : list (name * Z)) (kws : list (name * Z))
  : res (list (name * Z) * list (name * Z)) :=
  match kws with
  | [] => Ok (assigned, extras)
  | (k, v) :: rest =>
      if named ps k then
        if mem k assigned then Err TypeErr
        else bind_kw ps (assigned ++ [(k, v)]) extras rest
      else if has_varkw ps then bind_kw ps assigned (extras ++ [(k, v)]) rest
      else Err TypeErr
  end.

(* 3. unfilled parameters take their default; none -> "missing argument" *)
Fixpoint fill (ps : sig) (assigned : list (name * Z)) : res (list (name * Z)) :=
  match ps with
  | [] => Ok []
  | p :: ps' =>
      if is_varkw p then fill ps' assigned
      else
        match (match lookup (p_name p) assigned with
               | Some v => Some v
               | None => p_default p
               end) with
        | None => Err TypeErr
        | Some v =>
            match fill ps' assigned with
            | Ok r => Ok ((p_name p, v) :: r)
            | Err e => Err e
            end
        end
  end.

(* result: value of every named parameter in signature order, and the
   contents of **kwargs in call order *)
Definition bind (ps : sig) (c : call) : res (list (name * Z) * list (name * Z)) :=
  match bind_pos ps (c_pos c) with
  | Err e => Err e
  | Ok a0 =>
      match bind_kw ps a0 [] (c_kw c) with
      | Err e => Err e
      | Ok (a1, extras) =>
          match fill ps a1 with
          | Err e => Err e
          | Ok vals => Ok (vals, extras)
          end
      end
  end.
