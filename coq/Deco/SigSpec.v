(* C17 — what "accepts exactly its advertised signature" means. *)
From Coq Require Import String List Bool ZArith.
From SC Require Import Base.Res Deco.Naming Deco.Bind Deco.Signature.
Import ListNotations.
Open Scope string_scope.
Open Scope list_scope.

(* the call is one Python could make: no keyword twice *)
Definition call_ok (c : call) : Prop := NoDup (map fst (c_kw c)).

Definition binds (s : sig) (c : call) : Prop := exists r, bind s c = Ok r.
Definition accepts (b : mb) (c : call) : Prop := exists recv, wrapper b c = Ok recv.

(* the parameters shown before the nested-attribute keywords: those compiled
   into the wrapper *)
Definition explicit (b : mb) : list param := filter (fun p => negb (is_varkw p)) (sig_real b).

(* what a call supplies for a parameter name of a signature: the positional
   value at its position, else the keyword *)
Fixpoint pos_names (ps : sig) : list name :=
  match ps with
  | p :: t => if is_posorkw p then p_name p :: pos_names t else []
  | [] => []
  end.
Definition supplied (ps : sig) (c : call) (k : name) : option Z :=
  match lookup k (combine (pos_names ps) (c_pos c)) with
  | Some v => Some v
  | None => lookup k (c_kw c)
  end.
(* the default a signature shows for a parameter name *)
Definition default_of (ps : sig) (k : name) : option Z :=
  match find (fun p => negb (is_varkw p) && String.eqb (p_name p) k) ps with
  | Some p => p_default p
  | None => None
  end.

(* the implementation is called with exactly: every compiled parameter with the
   supplied value or else the default shown, and every other keyword of the
   call as given (nested-attribute keywords are passed only when supplied) *)
Definition receives_exactly (b : mb) (c : call) (recv : list (name * Z)) : Prop :=
  forall k,
    lookup k recv =
    if named (explicit b) k then
      match supplied (sig_advertised b) c k with
      | Some v => Some v
      | None => default_of (sig_advertised b) k
      end
    else lookup k (c_kw c).

(* the nested-attribute keywords of a signature: keyword-only parameters after
   the compiled ones, and the ** catch-all *)
Definition virtual_keywords (b : mb) : list name :=
  map p_name (filter (fun p => negb (is_varkw p)) (m_virtual b)).
Definition virtual_catch_all (b : mb) : option name :=
  match filter is_varkw (m_virtual b) with p :: _ => Some (p_name p) | [] => None end.

(* the attributes of the nested class a keyword should exist for *)
Definition init_enabled (taken : list name) (n : ncls) : list name :=
  map n_name (filter (fun a => n_init a && negb (memb (n_name a) taken)
                               && match n_overflow n with
                                  | Some o => negb (String.eqb (n_name a) o)
                                  | None => true end) (n_attrs n)).

(* which generated methods document nested-attribute keywords at all *)
Definition takes_nested (m : mkind) : bool :=
  match m with MTopReset | MReset | MElemWithout _ => false | _ => true end.

(* where the value of a keyword handed to the constructor of a spec class (directly,
   or through the nested-attribute keywords of a helper) has to end up: in the
   attribute of that name, or -- for a keyword covered by the ** catch-all -- in
   the overflow attribute's dictionary under that name *)
Inductive place := PAttr | POverflow.
Definition lands (n : ncls) (k : name) : option place :=
  if existsb (fun a => String.eqb (n_name a) k && n_init a
                       && match n_overflow n with Some o => negb (String.eqb k o) | None => true end)
             (n_attrs n)
  then Some PAttr
  else match active_overflow n with Some _ => Some POverflow | None => None end.
