(* Proofs for C17 (Deco/Bind.v, Deco/Signature.v against Deco/SigSpec.v). *)
From Coq Require Import String List Bool ZArith Lia.
From SC Require Import Base.Res Deco.Naming Deco.Bind Deco.Signature Deco.SigSpec Deco.DecoProofs.
Import ListNotations.
Open Scope string_scope.
Open Scope list_scope.

(* ------------------------------------------------------------------ closed forms of the binding phases *)
Lemma mem_app {A} k (l1 l2 : list (name * A)) : mem k (l1 ++ l2) = mem k l1 || mem k l2.
Proof. unfold mem. rewrite lookup_app. destruct (lookup k l1); reflexivity. Qed.

Lemma mem_single {A} k k' (v : A) : mem k [(k', v)] = String.eqb k' k.
Proof. unfold mem. simpl. destruct (String.eqb k' k); reflexivity. Qed.

Definition kw_ok (ps : sig) (a0 : list (name * Z)) (kws : list (name * Z)) : bool :=
  forallb (fun kv => if named ps (fst kv) then negb (mem (fst kv) a0) else has_varkw ps) kws.

Definition kw_named (ps : sig) (kws : list (name * Z)) := filter (fun kv => named ps (fst kv)) kws.
Definition kw_other (ps : sig) (kws : list (name * Z)) := filter (fun kv => negb (named ps (fst kv))) kws.

Lemma forallb_ext_In {A} (f g : A -> bool) l :
  (forall x, In x l -> f x = g x) -> forallb f l = forallb g l.
Proof.
  induction l as [|x t IH]; simpl; intro H; auto.
  rewrite H by auto. rewrite IH; auto.
Qed.

Lemma kw_ok_ext ps a0 a0' kws :
  (forall k, In k (map fst kws) -> mem k a0 = mem k a0') -> kw_ok ps a0 kws = kw_ok ps a0' kws.
Proof.
  intro H. unfold kw_ok. apply forallb_ext_In. intros [k v] Hin. simpl.
  rewrite (H k); auto. apply in_map_iff. exists (k, v). auto.
Qed.

Lemma bind_kw_closed ps kws : forall a0 ex0,
  NoDup (map fst kws) ->
  bind_kw ps a0 ex0 kws =
  if kw_ok ps a0 kws then Ok (a0 ++ kw_named ps kws, ex0 ++ kw_other ps kws) else Err TypeErr.
Proof.
  induction kws as [|[k v] t IH]; intros a0 ex0 Hn; simpl.
  - rewrite !app_nil_r. reflexivity.
  - inversion Hn; subst. destruct (named ps k) eqn:En; simpl.
    + destruct (mem k a0) eqn:Em; simpl; [reflexivity|].
      rewrite IH by auto.
      assert (kw_ok ps (a0 ++ [(k, v)]) t = kw_ok ps a0 t) as ->.
      { apply kw_ok_ext. intros k' Hk'. rewrite mem_app, mem_single.
        destruct (String.eqb_spec k k'); [subst; contradiction|]. apply orb_false_r. }
      rewrite <- !app_assoc. reflexivity.
    + destruct (has_varkw ps) eqn:Ev; simpl; [|reflexivity].
      rewrite IH by auto. rewrite <- !app_assoc. reflexivity.
Qed.

Definition value_of (assigned : list (name * Z)) (p : param) : option Z :=
  match lookup (p_name p) assigned with Some v => Some v | None => p_default p end.

Definition fill_ok (ps : sig) (assigned : list (name * Z)) : bool :=
  forallb (fun p => is_varkw p || match value_of assigned p with Some _ => true | None => false end) ps.

Definition fill_vals (ps : sig) (assigned : list (name * Z)) : list (name * Z) :=
  flat_map (fun p => if is_varkw p then []
                     else match value_of assigned p with Some v => [(p_name p, v)] | None => [] end) ps.

Lemma fill_closed ps assigned :
  fill ps assigned = if fill_ok ps assigned then Ok (fill_vals ps assigned) else Err TypeErr.
Proof.
  induction ps as [|p t IH]; simpl; auto.
  destruct (is_varkw p); simpl; auto.
  change (match lookup (p_name p) assigned with Some v => Some v | None => p_default p end)
    with (value_of assigned p).
  destruct (value_of assigned p) as [v|]; simpl; [|reflexivity].
  rewrite IH. destruct (fill_ok t assigned); reflexivity.
Qed.

Lemma bind_pos_err ps args e : bind_pos ps args = Err e -> e = TypeErr.
Proof.
  revert ps. induction args as [|v t IH]; intros ps; simpl; [intro H; discriminate|].
  destruct ps as [|p ps']; [intro H; inversion H; auto|].
  destruct (is_posorkw p); [|intro H; inversion H; auto].
  destruct (bind_pos ps' t) eqn:E; [intro H; discriminate|]. intro H. inversion H; subst. eauto.
Qed.

Definition stops (X : sig) : Prop := match X with [] => True | p :: _ => is_posorkw p = false end.

Lemma bind_pos_prefix E X Y args : stops X -> stops Y -> bind_pos (E ++ X) args = bind_pos (E ++ Y) args.
Proof.
  intros HX HY. revert args. induction E as [|p t IH]; intros [|v rest]; simpl; auto.
  - destruct X as [|x X'], Y as [|y Y']; simpl in *; auto; try rewrite HX; try rewrite HY; reflexivity.
  - destruct (is_posorkw p); auto. rewrite IH. reflexivity.
Qed.

Lemma bind_pos_combine ps args a : bind_pos ps args = Ok a -> a = combine (pos_names ps) args.
Proof.
  revert ps a. induction args as [|v t IH]; intros ps a; simpl.
  - intro H. inversion H. destruct (pos_names ps); reflexivity.
  - destruct ps as [|p ps']; [discriminate|]. simpl.
    destruct (is_posorkw p); [|discriminate].
    destruct (bind_pos ps' t) eqn:E; [|discriminate].
    intro H. inversion H; subst. simpl. f_equal. auto.
Qed.

Lemma pos_names_prefix E X Y : stops X -> stops Y -> pos_names (E ++ X) = pos_names (E ++ Y).
Proof.
  intros HX HY. induction E as [|p t IH]; simpl.
  - destruct X as [|x X'], Y as [|y Y']; simpl in *; auto; try rewrite HX; try rewrite HY; reflexivity.
  - destruct (is_posorkw p); auto. rewrite IH. reflexivity.
Qed.

Lemma posorkw_not_varkw p : is_posorkw p = true -> is_varkw p = false.
Proof. unfold is_posorkw, is_varkw. destruct (p_kind p); auto; discriminate. Qed.

Lemma pos_names_named ps k : In k (pos_names ps) -> named ps k = true.
Proof.
  induction ps as [|p t IH]; simpl; [tauto|].
  destruct (is_posorkw p) eqn:Ep; [|intros []].
  intros [H|H].
  - subst. rewrite (posorkw_not_varkw _ Ep), String.eqb_refl. reflexivity.
  - rewrite IH by auto. apply orb_true_r.
Qed.

Lemma In_combine_fst {A B} (l1 : list A) (l2 : list B) x : In x (map fst (combine l1 l2)) -> In x l1.
Proof.
  revert l2. induction l1 as [|a t IH]; intros [|b t2]; simpl; try tauto.
  intros [H|H]; eauto.
Qed.

Lemma named_app X Y k : named (X ++ Y) k = named X k || named Y k.
Proof. unfold named. apply existsb_app. Qed.

Lemma has_varkw_app X Y : has_varkw (X ++ Y) = has_varkw X || has_varkw Y.
Proof. unfold has_varkw. apply existsb_app. Qed.

(* bind in closed form *)
Lemma bind_closed ps c :
  call_ok c ->
  bind ps c =
  match bind_pos ps (c_pos c) with
  | Err _ => Err TypeErr
  | Ok a0 =>
      if kw_ok ps a0 (c_kw c) && fill_ok ps (a0 ++ kw_named ps (c_kw c))
      then Ok (fill_vals ps (a0 ++ kw_named ps (c_kw c)), kw_other ps (c_kw c))
      else Err TypeErr
  end.
Proof.
  intro Hc. unfold bind. destruct (bind_pos ps (c_pos c)) eqn:E.
  - rewrite bind_kw_closed by exact Hc. destruct (kw_ok ps a (c_kw c)); simpl; [|reflexivity].
    rewrite fill_closed. simpl. destruct (fill_ok ps (a ++ kw_named ps (c_kw c))); reflexivity.
  - apply bind_pos_err in E. subst. reflexivity.
Qed.

Lemma bind_err ps c e : call_ok c -> bind ps c = Err e -> e = TypeErr.
Proof.
  intros Hc. rewrite bind_closed by auto. destruct (bind_pos ps (c_pos c)).
  - destruct (kw_ok _ _ _ && fill_ok _ _); [discriminate|]. intro H; inversion H; auto.
  - intro H; inversion H; auto.
Qed.

(* ------------------------------------------------------------------ shape of builder states *)
Definition virt_ok (p : param) : bool :=
  match p_kind p, p_default p with KwOnly, Some _ => true | _, _ => false end.

Definition wf (b : mb) (E V O : list param) : Prop :=
  m_args b = E ++ (match V ++ O with [] => [] | _ => [kwargs_param] end) /\
  m_virtual b = V ++ O /\
  forallb (fun p => negb (is_varkw p)) E = true /\
  forallb virt_ok V = true /\
  (O = [] \/ exists nm, O = [mkparam nm VarKw None]) /\
  m_check b = match O with [] => true | _ => false end.

Definition wf_mb (b : mb) : Prop := exists E V O, wf b E V O.

Lemma wf_init : wf mb_init [self_param] [] [].
Proof. unfold wf. simpl. repeat split; auto. Qed.

Lemma kind_after_kwargs E k : kind_after (E ++ [kwargs_param]) k = true.
Proof. unfold kind_after. rewrite rev_app_distr. simpl. destruct k; reflexivity. Qed.

Lemma kind_after_varkw V nm k : kind_after (V ++ [mkparam nm VarKw None]) k = true.
Proof. unfold kind_after. rewrite rev_app_distr. simpl. destruct k; reflexivity. Qed.

Lemma with_arg_explicit_wf b E V O nm d k b' :
  wf b E V O -> k <> VarKw -> with_arg b nm d k false = Ok b' ->
  V = [] /\ O = [] /\ wf b' (E ++ [mkparam nm k d]) [] [].
Proof.
  intros (Ha & Hv & HE & HV & HO & Hc) Hk. unfold with_arg.
  destruct (kind_after (m_args b) k) eqn:Ek; [discriminate|]. intro H. inversion H; subst; clear H.
  assert (V ++ O = []) as Hnil.
  { destruct (V ++ O) eqn:Evo; auto. rewrite Ha, kind_after_kwargs in Ek. discriminate. }
  apply app_eq_nil in Hnil. destruct Hnil; subst. split; auto. split; auto.
  unfold wf. simpl in *. rewrite Ha, Hv, app_nil_r. repeat split; auto.
  - rewrite app_nil_r. reflexivity.
  - rewrite forallb_app, HE. simpl. unfold is_varkw. simpl. destruct k; auto; exfalso; apply Hk; reflexivity.
Qed.

Lemma with_arg_virtual_kw_wf b E V O nm d b' :
  wf b E V O -> with_arg b nm (Some d) KwOnly true = Ok b' ->
  O = [] /\ wf b' E (V ++ [mkparam nm KwOnly (Some d)]) [].
Proof.
  intros (Ha & Hv & HE & HV & HO & Hc). unfold with_arg.
  destruct (kind_after (m_virtual b) KwOnly) eqn:Ek; [discriminate|]. intro H. inversion H; subst; clear H.
  assert (O = []) as ->.
  { destruct HO as [->|(nm' & ->)]; auto. rewrite Hv, kind_after_varkw in Ek. discriminate. }
  split; auto. unfold wf. simpl. rewrite app_nil_r in *. rewrite Hv.
  split; [|split; [reflexivity|split; [exact HE|split; [|split; [left; reflexivity|exact Hc]]]]].
  - rewrite Ha. destruct V; simpl; rewrite ?app_nil_r; reflexivity.
  - rewrite forallb_app, HV. reflexivity.
Qed.

Lemma with_arg_virtual_varkw_wf b E V O nm b' :
  wf b E V O -> with_arg b nm None VarKw true = Ok b' ->
  O = [] /\ wf b' E V [mkparam nm VarKw None].
Proof.
  intros (Ha & Hv & HE & HV & HO & Hc). unfold with_arg.
  destruct (kind_after (m_virtual b) VarKw) eqn:Ek; [discriminate|]. intro H. inversion H; subst; clear H.
  assert (O = []) as ->.
  { destruct HO as [->|(nm' & ->)]; auto. rewrite Hv, kind_after_varkw in Ek. discriminate. }
  split; auto. unfold wf. simpl. rewrite app_nil_r in *. rewrite Hv.
  split; [|split; [reflexivity|split; [exact HE|split; [exact HV|split; [right; eauto|reflexivity]]]]].
  rewrite Ha. destruct V; simpl; rewrite ?app_nil_r; reflexivity.
Qed.

Ltac disc := first [discriminate | intro; discriminate].
Arguments with_arg : simpl never.

Lemma with_virtuals_wf args : forall b E V b',
  wf b E V [] -> with_virtuals b args = Ok b' ->
  wf b' E (V ++ map (fun a => mkparam (fst a) KwOnly (Some (snd a))) args) [].
Proof.
  induction args as [|[nm d] t IH]; intros b E V b' Hw; simpl.
  - intro H. inversion H; subst. rewrite app_nil_r. exact Hw.
  - destruct (with_arg b nm (Some d) KwOnly true) as [b1|] eqn:E1; [|disc].
    intro H. destruct (with_arg_virtual_kw_wf _ _ _ _ _ _ _ Hw E1) as [_ Hw1].
    specialize (IH _ _ _ _ Hw1 H). rewrite <- app_assoc in IH. exact IH.
Qed.

Lemma with_args_wf args b E V b' :
  wf b E V [] -> with_args b args = Ok b' ->
  wf b' E (V ++ map (fun a => mkparam (fst a) KwOnly (Some (snd a))) args) [].
Proof.
  intros Hw. unfold with_args. destruct args as [|a t].
  - intro H. inversion H; subst. simpl. rewrite app_nil_r. exact Hw.
  - destruct (existsb _ _); [disc|]. now apply with_virtuals_wf.
Qed.

Definition spec_virtuals (b : mb) (n : ncls) : list param :=
  map (fun a => mkparam (fst a) KwOnly (Some (snd a)))
      (map (fun a => (n_name a, n_default a)) (filter (eligible b n) (n_attrs n))).

Lemma with_spec_attrs_wf b E V n b' :
  wf b E V [] -> with_spec_attrs_for b (Some n) = Ok b' ->
  wf b' E (V ++ spec_virtuals b n)
     (match active_overflow n with Some o => [mkparam o VarKw None] | None => [] end).
Proof.
  intros Hw. unfold with_spec_attrs_for.
  destruct (with_args b _) as [b1|] eqn:E1; [|disc].
  pose proof (with_args_wf _ _ _ _ _ Hw E1) as Hw1.
  destruct (active_overflow n) as [o|].
  - intro H. destruct (with_arg_virtual_varkw_wf _ _ _ _ _ _ Hw1 H) as [_ Hw2]. exact Hw2.
  - intro H. inversion H; subst. exact Hw1.
Qed.

Definition op_ok (o : op) : bool := match o with OArg _ _ VarKw => false | _ => true end.

Lemma step_wf b o b' : wf_mb b -> op_ok o = true -> step b o = Ok b' -> wf_mb b'.
Proof.
  intros (E & V & O & Hw) Ho. destruct o as [nm d k|[n|]]; simpl.
  - intro H. assert (k <> VarKw) by (destruct k; simpl in Ho; congruence).
    destruct (with_arg_explicit_wf _ _ _ _ _ _ _ _ Hw H0 H) as (_ & _ & Hw'). eexists _, _, _. eauto.
  - intro H.
    assert (O = [] \/ O <> []) as [->|Hne] by (destruct O; [left|right]; congruence).
    + eexists _, _, _. eapply with_spec_attrs_wf; eauto.
    + (* a catch-all is already present: every further virtual argument is refused *)
      destruct Hw as (Ha & Hv & HE & HV & HO & Hc).
      destruct HO as [->|(nm & ->)]; [congruence|].
      unfold with_spec_attrs_for in H.
      destruct (map _ (filter (eligible b n) (n_attrs n))) as [|[a d] t] eqn:Eargs.
      * simpl in H. destruct (active_overflow n).
        -- unfold with_arg in H. rewrite Hv, kind_after_varkw in H. discriminate.
        -- inversion H; subst. exists E, V, [mkparam nm VarKw None]. unfold wf. eauto 10.
      * simpl in H.
        destruct (memb a (all_names b) || existsb (fun p : name * Z => memb (fst p) (all_names b)) t);
          [discriminate|].
        unfold with_arg in H at 1. rewrite Hv, kind_after_varkw in H. discriminate.
  - intro H. inversion H; subst. eexists _, _, _. eauto.
Qed.

Lemma run_wf prog : forall b b', wf_mb b -> forallb op_ok prog = true -> run b prog = Ok b' -> wf_mb b'.
Proof.
  induction prog as [|o t IH]; intros b b' Hw Hp; simpl.
  - intro H. inversion H; subst. exact Hw.
  - simpl in Hp. apply andb_true_iff in Hp. destruct Hp as [Ho Hp].
    destruct (step b o) as [b1|] eqn:E1; [|disc]. intro H.
    apply (IH b1 b'); auto. eapply step_wf; eauto.
Qed.


(* ------------------------------------------------------------------ accept iff advertised *)
Lemma lookup_filter_key {A} (f : name * A -> bool) k l :
  (forall v, f (k, v) = true) -> lookup k (filter f l) = lookup k l.
Proof.
  intro H. induction l as [|[k' v] t IH]; simpl; auto.
  destruct (String.eqb_spec k' k).
  - subst. rewrite H. simpl. rewrite String.eqb_refl. reflexivity.
  - destruct (f (k', v)); simpl; auto.
    destruct (String.eqb_spec k' k); [contradiction|auto].
Qed.

Lemma lookup_filter_none {A} (f : name * A -> bool) k l :
  (forall v, f (k, v) = false) -> lookup k (filter f l) = None.
Proof.
  intro H. induction l as [|[k' v] t IH]; simpl; auto.
  destruct (f (k', v)) eqn:Ef; simpl; auto.
  destruct (String.eqb_spec k' k); auto. subst. rewrite H in Ef. discriminate.
Qed.

Lemma named_In ps k : named ps k = true <-> exists p, In p ps /\ is_varkw p = false /\ p_name p = k.
Proof.
  unfold named. rewrite existsb_exists. split.
  - intros (p & Hin & H). apply andb_true_iff in H. destruct H as [H1 H2].
    apply negb_true_iff in H1. apply String.eqb_eq in H2. eauto.
  - intros (p & Hin & H1 & H2). exists p. split; auto. rewrite H1, H2, String.eqb_refl. reflexivity.
Qed.

Lemma named_varkw_only ps k : forallb is_varkw ps = true -> named ps k = false.
Proof.
  intro H. destruct (named ps k) eqn:E; auto. apply named_In in E.
  destruct E as (p & Hin & Hv & _). rewrite forallb_forall in H. rewrite (H _ Hin) in Hv; discriminate.
Qed.

Lemma has_varkw_none ps : forallb (fun p => negb (is_varkw p)) ps = true -> has_varkw ps = false.
Proof.
  intro H. unfold has_varkw. destruct (existsb is_varkw ps) eqn:E; auto.
  apply existsb_exists in E. destruct E as (p & Hin & Hv). rewrite forallb_forall in H.
  specialize (H _ Hin). rewrite Hv in H. discriminate.
Qed.

Lemma virt_ok_not_varkw V : forallb virt_ok V = true -> forallb (fun p => negb (is_varkw p)) V = true.
Proof.
  intro H. rewrite forallb_forall in *. intros p Hin. specialize (H _ Hin).
  unfold virt_ok in H. unfold is_varkw. destruct (p_kind p); auto; discriminate.
Qed.

Lemma fill_ok_app X Y a : fill_ok (X ++ Y) a = fill_ok X a && fill_ok Y a.
Proof. unfold fill_ok. apply forallb_app. Qed.

Lemma fill_ok_virtuals V a : forallb virt_ok V = true -> fill_ok V a = true.
Proof.
  intro H. unfold fill_ok. rewrite forallb_forall in *. intros p Hin. specialize (H _ Hin).
  unfold virt_ok in H. unfold value_of. destruct (p_kind p); try discriminate.
  destruct (p_default p); [|discriminate]. destruct (lookup (p_name p) a); apply orb_true_r.
Qed.

Lemma fill_ok_varkw O a : forallb is_varkw O = true -> fill_ok O a = true.
Proof.
  intro H. unfold fill_ok. rewrite forallb_forall in *. intros p Hin. rewrite (H _ Hin). reflexivity.
Qed.

Section Accept.
  Variables (b : mb) (E V O : list param).
  Hypothesis Hwf : wf b E V O.

  Let O_varkw : forallb is_varkw O = true.
  Proof. destruct Hwf as (_ & _ & _ & _ & [->|(nm & ->)] & _); reflexivity. Qed.

  Lemma real_shape : V ++ O <> [] -> sig_real b = E ++ [kwargs_param].
  Proof. destruct Hwf as (Ha & _). unfold sig_real. rewrite Ha. destruct (V ++ O); congruence. Qed.

  Lemma adv_shape : sig_advertised b = E ++ V ++ O.
  Proof.
    destruct Hwf as (Ha & Hv & _). unfold sig_advertised. rewrite Hv, Ha.
    destruct (V ++ O) eqn:Evo.
    - rewrite !app_nil_r. reflexivity.
    - rewrite removelast_last. reflexivity.
  Qed.

  Lemma real_shape_nil : V ++ O = [] -> sig_real b = E /\ sig_advertised b = E /\ m_virtual b = [].
  Proof.
    intro Hn. destruct Hwf as (Ha & Hv & _). unfold sig_real, sig_advertised.
    rewrite Hv, Ha, Hn, app_nil_r. auto.
  Qed.

  Lemma stops_X : stops (V ++ O).
  Proof.
    destruct Hwf as (_ & _ & _ & HV & HO & _). destruct V as [|p V']; simpl.
    - destruct HO as [->|(nm & ->)]; simpl; auto.
    - simpl in HV. apply andb_true_iff in HV. destruct HV as [Hp _].
      unfold virt_ok in Hp. unfold is_posorkw. destruct (p_kind p); auto; discriminate.
  Qed.

  Lemma named_real k : named (E ++ [kwargs_param]) k = named E k.
  Proof. rewrite named_app. simpl. apply orb_false_r. Qed.

  Lemma named_adv k : named (E ++ V ++ O) k = named E k || named V k.
  Proof. rewrite !named_app, (named_varkw_only O) by exact O_varkw. rewrite orb_false_r. reflexivity. Qed.

  Lemma has_varkw_adv : has_varkw (E ++ V ++ O) = match O with [] => false | _ => true end.
  Proof.
    destruct Hwf as (_ & _ & HE & HV & HO & _).
    rewrite !has_varkw_app, (has_varkw_none E) by exact HE.
    rewrite (has_varkw_none V) by (now apply virt_ok_not_varkw).
    destruct HO as [->|(nm & ->)]; reflexivity.
  Qed.

  Lemma a0_names a0 pos k :
    bind_pos (E ++ [kwargs_param]) pos = Ok a0 -> mem k a0 = true -> named E k = true.
  Proof.
    intros Hb Hm. apply bind_pos_combine in Hb. subst a0.
    apply mem_In_fst in Hm. apply In_combine_fst in Hm. apply pos_names_named in Hm.
    now rewrite named_real in Hm.
  Qed.

  Lemma kw_ok_adv_real a0 pos kws :
    bind_pos (E ++ [kwargs_param]) pos = Ok a0 ->
    kw_ok (E ++ V ++ O) a0 kws =
    kw_ok (E ++ [kwargs_param]) a0 kws &&
    ((match O with [] => false | _ => true end) ||
     forallb (fun kv => named V (fst kv)) (kw_other (E ++ [kwargs_param]) kws)).
  Proof.
    intro Hb. unfold kw_ok, kw_other. induction kws as [|[k v] t IH]; simpl.
    - rewrite orb_true_r. reflexivity.
    - rewrite IH. rewrite named_adv, named_real, has_varkw_adv, has_varkw_app. simpl.
      rewrite orb_true_r.
      destruct (named E k) eqn:En; simpl.
      + destruct (mem k a0); simpl; reflexivity.
      + destruct (named V k) eqn:Ev; simpl.
        * assert (mem k a0 = false) as ->.
          { destruct (mem k a0) eqn:Em; auto. rewrite (a0_names _ _ _ Hb Em) in En. discriminate. }
          simpl. reflexivity.
        * destruct O; simpl.
          -- rewrite andb_false_r. reflexivity.
          -- reflexivity.
  Qed.

  Lemma value_of_same a0 kws p :
    In p E -> is_varkw p = false ->
    value_of (a0 ++ kw_named (E ++ V ++ O) kws) p = value_of (a0 ++ kw_named (E ++ [kwargs_param]) kws) p.
  Proof.
    intros Hin Hv. unfold value_of. rewrite !lookup_app.
    destruct (lookup (p_name p) a0); auto.
    assert (named E (p_name p) = true) as Hn by (apply named_In; eauto).
    unfold kw_named. rewrite !lookup_filter_key; auto.
    - intro v. simpl. now rewrite named_real.
    - intro v. simpl. rewrite named_adv, Hn. reflexivity.
  Qed.

  Lemma fill_ok_same a0 kws :
    fill_ok (E ++ V ++ O) (a0 ++ kw_named (E ++ V ++ O) kws) =
    fill_ok (E ++ [kwargs_param]) (a0 ++ kw_named (E ++ [kwargs_param]) kws).
  Proof.
    destruct Hwf as (_ & _ & HE & HV & _).
    rewrite !fill_ok_app. rewrite (fill_ok_virtuals V) by exact HV.
    rewrite (fill_ok_varkw O) by exact O_varkw.
    rewrite (fill_ok_varkw [kwargs_param]) by reflexivity. rewrite !andb_true_r.
    unfold fill_ok. apply forallb_ext_In. intros p Hin.
    destruct (is_varkw p) eqn:Ev; auto. simpl. rewrite value_of_same; auto.
  Qed.

  Lemma memb_names_named ps k :
    forallb (fun p => negb (is_varkw p)) ps = true -> memb k (map p_name ps) = named ps k.
  Proof.
    intro H. induction ps as [|p t IH]; simpl; auto.
    simpl in H. apply andb_true_iff in H. destruct H as [Hp Ht]. rewrite Hp. simpl.
    rewrite IH by auto. reflexivity.
  Qed.

  (* ---- C17_accept_iff_advertised *)
  Theorem accept_iff_advertised c :
    call_ok c -> (accepts b c <-> binds (sig_advertised b) c).
  Proof.
    intro Hc. unfold accepts, binds, wrapper.
    assert (Hcase : V ++ O = [] \/ V ++ O <> []) by (destruct (V ++ O); [left|right]; congruence).
    destruct Hcase as [Evo|Hne].
    - destruct (real_shape_nil Evo) as (Hr & Ha & Hv). rewrite Ha, Hr, Hv.
      destruct (bind E c) as [[vals kw]|]; simpl; split; intros [r H]; try (eexists; reflexivity); discriminate.
    - rewrite (real_shape Hne), adv_shape.
      rewrite !bind_closed by exact Hc.
      rewrite (bind_pos_prefix E [kwargs_param] (V ++ O)) by (simpl; auto using stops_X).
      destruct (bind_pos (E ++ V ++ O) (c_pos c)) as [a0|] eqn:Ep.
      + assert (Ep' : bind_pos (E ++ [kwargs_param]) (c_pos c) = Ok a0).
        { rewrite (bind_pos_prefix E [kwargs_param] (V ++ O)) by (simpl; auto using stops_X). exact Ep. }
        rewrite (kw_ok_adv_real _ _ _ Ep'), fill_ok_same.
        destruct Hwf as (_ & Hv & _ & HV & HO & Hck). rewrite Hv, Hck.
        assert ((match V ++ O with [] => false | _ => true end) = true) as ->
          by (destruct (V ++ O); congruence).
        destruct (kw_ok (E ++ [kwargs_param]) a0 (c_kw c)); simpl;
          [|split; intros [r H]; discriminate].
        destruct (fill_ok (E ++ [kwargs_param]) (a0 ++ kw_named (E ++ [kwargs_param]) (c_kw c))); simpl;
          [|rewrite andb_false_r; split; intros [r H]; discriminate].
        rewrite andb_true_r.
        destruct HO as [->|(nm & ->)]; simpl.
        * rewrite app_nil_r.
          assert (forallb (fun kv => memb (fst kv) (map p_name V)) (kw_other (E ++ [kwargs_param]) (c_kw c))
                  = forallb (fun kv => named V (fst kv)) (kw_other (E ++ [kwargs_param]) (c_kw c))) as ->.
          { apply forallb_ext_In. intros kv _. apply memb_names_named. now apply virt_ok_not_varkw. }
          destruct (forallb (fun kv : name * Z => named V (fst kv)) (kw_other (E ++ [kwargs_param]) (c_kw c)));
            simpl; split; intros [r H]; try (eexists; reflexivity); discriminate.
        * split; intros _; eexists; reflexivity.
      + split; intros [r H]; discriminate.
  Qed.
End Accept.

(* ------------------------------------------------------------------ what the implementation receives *)
Definition pfind (ps : sig) (k : name) : option param :=
  find (fun p => negb (is_varkw p) && String.eqb (p_name p) k) ps.

Lemma pfind_named ps k : named ps k = true <-> exists p, pfind ps k = Some p.
Proof.
  unfold named, pfind. induction ps as [|p t IH]; simpl.
  - split; [discriminate|intros [p H]; discriminate].
  - destruct (negb (is_varkw p) && String.eqb (p_name p) k); simpl.
    + split; eauto.
    + exact IH.
Qed.

Lemma pfind_name ps k p : pfind ps k = Some p -> p_name p = k /\ is_varkw p = false.
Proof.
  unfold pfind. intro H. apply find_some in H. destruct H as [_ H].
  apply andb_true_iff in H. destruct H as [H1 H2]. apply negb_true_iff in H1. apply String.eqb_eq in H2. auto.
Qed.

Lemma pfind_app X Y k : pfind (X ++ Y) k = match pfind X k with Some p => Some p | None => pfind Y k end.
Proof.
  unfold pfind. induction X as [|p t IH]; simpl; auto.
  destruct (negb (is_varkw p) && String.eqb (p_name p) k); auto.
Qed.

Lemma fill_vals_lookup ps a k :
  fill_ok ps a = true ->
  lookup k (fill_vals ps a) = match pfind ps k with Some p => value_of a p | None => None end.
Proof.
  unfold fill_ok, fill_vals, pfind. induction ps as [|p t IH]; simpl; auto.
  intro H. apply andb_true_iff in H. destruct H as [Hp Ht].
  destruct (is_varkw p) eqn:Ev; simpl; [now apply IH|].
  simpl in Hp. destruct (value_of a p) as [v|] eqn:Eval; [|discriminate]. simpl.
  destruct (String.eqb (p_name p) k); auto.
Qed.

Lemma bind_receives R c vals kwargs :
  call_ok c -> bind R c = Ok (vals, kwargs) ->
  forall k, lookup k (vals ++ kwargs) =
    if named R k then
      match supplied R c k with Some v => Some v | None => default_of R k end
    else lookup k (c_kw c).
Proof.
  intros Hc Hb k. rewrite bind_closed in Hb by exact Hc.
  destruct (bind_pos R (c_pos c)) as [a0|] eqn:Ep; [|discriminate].
  destruct (kw_ok R a0 (c_kw c) && fill_ok R (a0 ++ kw_named R (c_kw c))) eqn:Eok; [|discriminate].
  inversion Hb; subst; clear Hb. apply andb_true_iff in Eok. destruct Eok as [_ Hf].
  rewrite lookup_app, (fill_vals_lookup _ _ _ Hf).
  apply bind_pos_combine in Ep. subst a0.
  destruct (named R k) eqn:En.
  - apply pfind_named in En. destruct En as [p Hp]. rewrite Hp.
    destruct (pfind_name _ _ _ Hp) as [Hname Hv].
    assert (Hsome : exists v, value_of (combine (pos_names R) (c_pos c) ++ kw_named R (c_kw c)) p = Some v).
    { unfold fill_ok in Hf. rewrite forallb_forall in Hf.
      assert (In p R) as Hin by (unfold pfind in Hp; apply find_some in Hp; tauto).
      specialize (Hf _ Hin). rewrite Hv in Hf. simpl in Hf.
      destruct (value_of _ p) as [v|]; [eauto|discriminate]. }
    destruct Hsome as [v0 Hv0]. rewrite Hv0. rewrite <- Hv0.
    unfold value_of, supplied, default_of. fold (pfind R k). rewrite Hp, Hname, lookup_app.
    destruct (lookup k (combine (pos_names R) (c_pos c))) as [v|]; auto.
    unfold kw_named. rewrite lookup_filter_key.
    + destruct (lookup k (c_kw c)); reflexivity.
    + intro v. simpl. apply pfind_named. eauto.
  - assert (pfind R k = None) as ->.
    { destruct (pfind R k) eqn:Ef; auto.
      assert (named R k = true) by (apply pfind_named; eauto). congruence. }
    unfold kw_other. apply lookup_filter_key. intro v. simpl. rewrite En. reflexivity.
Qed.

Lemma wrapper_err b c e : call_ok c -> wrapper b c = Err e -> e = TypeErr.
Proof.
  intro Hc. unfold wrapper. destruct (bind (sig_real b) c) as [[vals kw]|e'] eqn:Eb.
  - destruct (_ && _); [|discriminate]. intro H; inversion H; auto.
  - intro H; inversion H; subst. eapply bind_err; eauto.
Qed.

Lemma filter_all {A} (f : A -> bool) l : forallb f l = true -> filter f l = l.
Proof.
  induction l as [|x t IH]; simpl; auto. intro H. apply andb_true_iff in H. destruct H as [Hx Ht].
  rewrite Hx, IH; auto.
Qed.

Section Receive.
  Variables (b : mb) (E V O : list param).
  Hypothesis Hwf : wf b E V O.

  Lemma explicit_shape : explicit b = E.
  Proof.
    destruct Hwf as (Ha & _ & HE & _). unfold explicit, sig_real. rewrite Ha.
    rewrite filter_app.
    rewrite (filter_all _ E HE).
    destruct (V ++ O); simpl; rewrite app_nil_r; reflexivity.
  Qed.

  Lemma real_cases : sig_real b = E \/ sig_real b = E ++ [kwargs_param].
  Proof.
    destruct Hwf as (Ha & _). unfold sig_real. rewrite Ha. destruct (V ++ O); [left|right]; auto.
    apply app_nil_r.
  Qed.

  Lemma named_real_E k : named (sig_real b) k = named E k.
  Proof.
    destruct real_cases as [->| ->]; auto. rewrite named_app. simpl. apply orb_false_r.
  Qed.

  Lemma pos_names_real_adv : pos_names (sig_real b) = pos_names (sig_advertised b).
  Proof.
    rewrite (adv_shape b E V O Hwf).
    destruct Hwf as (Ha & _). unfold sig_real. rewrite Ha.
    destruct (V ++ O) eqn:Evo.
    - reflexivity.
    - rewrite <- Evo. apply pos_names_prefix; simpl; auto. apply (stops_X b E V O Hwf).
  Qed.

  Lemma default_real_adv k : named E k = true -> default_of (sig_real b) k = default_of (sig_advertised b) k.
  Proof.
    intro Hn. apply pfind_named in Hn. destruct Hn as [p Hp].
    unfold default_of. fold (pfind (sig_real b) k) (pfind (sig_advertised b) k).
    rewrite (adv_shape b E V O Hwf), pfind_app, Hp.
    destruct real_cases as [->| ->]; [|rewrite pfind_app]; rewrite Hp; reflexivity.
  Qed.

  (* ---- C17_values_reach_impl *)
  Theorem values_reach_impl c recv :
    call_ok c -> wrapper b c = Ok recv -> receives_exactly b c recv.
  Proof.
    intros Hc Hw k. unfold wrapper in Hw.
    destruct (bind (sig_real b) c) as [[vals kwargs]|] eqn:Eb; [|discriminate].
    destruct (_ && _); [discriminate|]. inversion Hw; subst; clear Hw.
    rewrite (bind_receives _ _ _ _ Hc Eb k).
    rewrite explicit_shape, named_real_E.
    destruct (named E k) eqn:En; auto.
    unfold supplied. rewrite pos_names_real_adv, (default_real_adv _ En). reflexivity.
  Qed.

  (* ---- C17_reject_before_effect *)
  Theorem reject_before_effect {S : Type} (impl : list (name * Z) -> S -> S * res Z) c k s :
    call_ok c -> In k (map fst (c_kw c)) ->
    named (sig_advertised b) k = false -> has_varkw (sig_advertised b) = false ->
    wrapper b c = Err TypeErr /\ invoke b impl c s = (s, Err TypeErr).
  Proof.
    intros Hc Hin Hn Hv.
    assert (Hw : wrapper b c = Err TypeErr).
    { destruct (wrapper b c) as [recv|e] eqn:Ew.
      - exfalso. assert (accepts b c) as Ha by (eexists; eauto).
        apply (accept_iff_advertised b E V O Hwf c Hc) in Ha. destruct Ha as [r Hb].
        rewrite bind_closed in Hb by exact Hc.
        destruct (bind_pos (sig_advertised b) (c_pos c)) as [a0|]; [|discriminate].
        destruct (kw_ok (sig_advertised b) a0 (c_kw c)) eqn:Ek; [|discriminate].
        unfold kw_ok in Ek. rewrite forallb_forall in Ek.
        apply in_map_iff in Hin. destruct Hin as ([k' v] & Hk & Hin). simpl in Hk. subst k'.
        specialize (Ek _ Hin). simpl in Ek. rewrite Hn, Hv in Ek. discriminate.
      - f_equal. eapply wrapper_err; eauto. }
    split; auto. unfold invoke. rewrite Hw. reflexivity.
  Qed.
End Receive.

(* ------------------------------------------------------------------ built methods *)
Lemma run_app p1 : forall b p2,
  run b (p1 ++ p2) = match run b p1 with Ok b1 => run b1 p2 | Err e => Err e end.
Proof.
  induction p1 as [|o t IH]; intros b p2; simpl; auto.
  destruct (step b o); auto.
Qed.

Definition is_oarg (o : op) : bool := match o with OArg _ _ VarKw => false | OArg _ _ _ => true | _ => false end.

Lemma run_explicit prog : forall b E b',
  wf b E [] [] -> forallb is_oarg prog = true -> run b prog = Ok b' -> exists E', wf b' E' [] [].
Proof.
  induction prog as [|o t IH]; intros b E b' Hw Hp; simpl.
  - intro H. inversion H; subst. eauto.
  - simpl in Hp. apply andb_true_iff in Hp. destruct Hp as [Ho Hp].
    destruct o as [nm d k|n]; [|discriminate]. simpl.
    destruct (with_arg b nm d k false) as [b1|] eqn:E1; [|disc].
    assert (k <> VarKw) by (destruct k; simpl in Ho; congruence).
    destruct (with_arg_explicit_wf _ _ _ _ _ _ _ _ Hw H E1) as (_ & _ & Hw1).
    intro Hr. eapply IH; eauto.
Qed.

Definition method_pre (m : mkind) : list op := filter is_oarg (method_prog m None).

Lemma method_prog_shape m nested :
  method_prog m nested = method_pre m ++ (if takes_nested m then [OSpecAttrs nested] else []).
Proof.
  destruct m as [[[k d]|]| | | | |s|s| |k s|k s|k s|k]; try destruct k; try destruct d; try destruct s; reflexivity.
Qed.

Lemma method_pre_oarg m : forallb is_oarg (method_pre m) = true.
Proof.
  unfold method_pre. induction (method_prog m None) as [|o t IH]; simpl; auto.
  destruct (is_oarg o) eqn:Eo; simpl; auto. rewrite Eo. exact IH.
Qed.

Lemma op_ok_of_oarg l : forallb is_oarg l = true -> forallb op_ok l = true.
Proof.
  intro H. rewrite forallb_forall in *. intros o Hin. specialize (H _ Hin).
  destruct o as [nm d k|n]; [destruct k|]; simpl in *; auto.
Qed.

(* every built method is a well-shaped builder state *)
Theorem build_method_wf m nested b : build_method m nested = Ok b -> wf_mb b.
Proof.
  unfold build_method, build_prog. destruct (run mb_init (method_prog m nested)) as [b0|] eqn:Er; [|disc].
  unfold build. destruct (_ && _); [|disc]. intro H. inversion H; subst.
  eapply run_wf; eauto.
  - exists [self_param], [], []. apply wf_init.
  - rewrite method_prog_shape, forallb_app. rewrite (op_ok_of_oarg _ (method_pre_oarg m)).
    destruct (takes_nested m); reflexivity.
Qed.

Lemma virtual_keywords_spec b0 E n b :
  wf b0 E [] [] -> with_spec_attrs_for b0 (Some n) = Ok b ->
  virtual_keywords b = init_enabled (map p_name (explicit b)) n /\
  virtual_catch_all b = active_overflow n.
Proof.
  intros Hw0 Hs. pose proof (with_spec_attrs_wf _ _ _ _ _ Hw0 Hs) as Hw. simpl in Hw.
  rewrite (explicit_shape _ _ _ _ Hw).
  destruct Hw as (_ & Hv & _ & HV & _).
  unfold virtual_keywords, virtual_catch_all. rewrite Hv, !filter_app.
  assert (Hnames : all_names b0 = map p_name E).
  { destruct Hw0 as (Ha & Hv0 & _). unfold all_names. rewrite Ha, Hv0. simpl. rewrite !app_nil_r. reflexivity. }
  assert (Hf1 : filter (fun p => negb (is_varkw p)) (spec_virtuals b0 n) = spec_virtuals b0 n).
  { apply filter_all. apply virt_ok_not_varkw. exact HV. }
  assert (Hf2 : filter is_varkw (spec_virtuals b0 n) = []).
  { pose proof (virt_ok_not_varkw _ HV) as Hnv. clear -Hnv.
    induction (spec_virtuals b0 n) as [|p t IH]; simpl in *; auto.
    apply andb_true_iff in Hnv. destruct Hnv as [Hp Ht]. apply negb_true_iff in Hp. rewrite Hp. auto. }
  rewrite Hf1, Hf2. split.
  - destruct (active_overflow n); simpl; rewrite app_nil_r;
      unfold spec_virtuals, init_enabled; rewrite !map_map; simpl;
      (erewrite filter_ext; [reflexivity|]); intro a; unfold eligible; rewrite Hnames; reflexivity.
  - destruct (active_overflow n); reflexivity.
Qed.

(* ---- C17_nested_keywords_bijective *)
Theorem nested_keywords_bijective m n b :
  build_method m (Some n) = Ok b -> takes_nested m = true ->
  (forall a, In a (virtual_keywords b) <->
     exists x, In x (n_attrs n) /\ n_name x = a /\ n_init x = true /\
               ~ In a (map p_name (explicit b)) /\ n_overflow n <> Some a) /\
  virtual_catch_all b = active_overflow n /\
  (NoDup (map n_name (n_attrs n)) -> NoDup (virtual_keywords b)).
Proof.
  unfold build_method, build_prog. rewrite method_prog_shape. intros H Ht. rewrite Ht in H.
  rewrite run_app in H.
  destruct (run mb_init (method_pre m)) as [b0|] eqn:Er; [|discriminate].
  destruct (run_explicit _ _ _ _ wf_init (method_pre_oarg m) Er) as [E Hw0].
  cbn [run step] in H. destruct (with_spec_attrs_for b0 (Some n)) as [b1|] eqn:Es; [|discriminate].
  unfold build in H. destruct (_ && _); [|discriminate]. inversion H; subst b1; clear H.
  destruct (virtual_keywords_spec _ _ _ _ Hw0 Es) as [Hk Hc]. rewrite Hk. split; [|split; auto].
  - intro a. unfold init_enabled. rewrite in_map_iff. split.
    + intros (x & Hx & Hin). apply filter_In in Hin. destruct Hin as [Hin Hf].
      apply andb_true_iff in Hf. destruct Hf as [Hf Ho]. apply andb_true_iff in Hf. destruct Hf as [Hi Hm].
      apply negb_true_iff in Hm. apply memb_false in Hm.
      exists x. subst a. repeat split; auto.
      destruct (n_overflow n) as [o|]; [|discriminate]. apply negb_true_iff in Ho.
      apply String.eqb_neq in Ho. congruence.
    + intros (x & Hin & Hx & Hi & Hm & Ho). exists x. split; auto. apply filter_In. split; auto.
      rewrite Hi, Hx. apply memb_false in Hm. rewrite Hm. simpl.
      destruct (n_overflow n) as [o|]; auto. apply negb_true_iff, String.eqb_neq. congruence.
  - intro Hn. unfold init_enabled. clear -Hn.
    induction (n_attrs n) as [|x t IH]; simpl in *; [constructor|].
    inversion Hn; subst. destruct (_ && _); simpl; auto.
    constructor; auto. intro Hin. apply H1. apply in_map_iff in Hin. destruct Hin as (y & Hy & Hin).
    apply filter_In in Hin. apply in_map_iff. exists y. tauto.
Qed.

(* ------------------------------------------------------------------ statements for built methods *)
Lemma build_prog_wf prog b : forallb op_ok prog = true -> build_prog prog = Ok b -> wf_mb b.
Proof.
  intros Hp. unfold build_prog. destruct (run mb_init prog) as [b0|] eqn:Er; [|disc].
  unfold build. destruct (_ && _); [|disc]. intro H. inversion H; subst.
  eapply run_wf; eauto. exists [self_param], [], []. apply wf_init.
Qed.

Theorem wf_accept_iff_advertised b c : wf_mb b -> call_ok c -> (accepts b c <-> binds (sig_advertised b) c).
Proof. intros (E & V & O & Hw). eapply accept_iff_advertised; eauto. Qed.

Theorem wf_values_reach_impl b c recv :
  wf_mb b -> call_ok c -> wrapper b c = Ok recv -> receives_exactly b c recv.
Proof. intros (E & V & O & Hw). eapply values_reach_impl; eauto. Qed.

Theorem wf_reject_before_effect {S : Type} b (impl : list (name * Z) -> S -> S * res Z) c k s :
  wf_mb b -> call_ok c -> In k (map fst (c_kw c)) ->
  named (sig_advertised b) k = false -> has_varkw (sig_advertised b) = false ->
  wrapper b c = Err TypeErr /\ invoke b impl c s = (s, Err TypeErr).
Proof. intros (E & V & O & Hw). eapply reject_before_effect; eauto. Qed.
