(* MethodBuilder (spec_classes/utils/method_builder.py) and the parameter
   tables of the generated methods (methods/{core,toplevel,scalar}.py,
   methods/collections/{sequences,mappings,sets}.py).  Model; no proofs here.
   A built method is described by the builder state `mb`:
     sig_real        what the exec-compiled wrapper is defined with,
     sig_advertised  what __signature__ shows,
     wrapper         bind to sig_real; validate_attrs(kwargs); call the
                     implementation with name=value for every parameter and
                     the collected kwargs. *)
From Coq Require Import String List Bool ZArith.
From SC Require Import Base.Res Deco.Naming Deco.Bind.
Import ListNotations.
Open Scope string_scope.
Open Scope list_scope.

Record mb := mkmb {
  m_args : list param;       (* method_args *)
  m_virtual : list param;    (* method_args_virtual *)
  m_check : bool             (* check_attrs_match_sig *)
}.

Definition self_param : param := mkparam "self" PosOrKw None.
Definition kwargs_param : param := mkparam "kwargs" VarKw None.
Definition mb_init : mb := mkmb [self_param] [] true.

(* inspect._ParameterKind values *)
Definition kind_value (k : pkind) : Z := match k with PosOrKw => 1 | KwOnly => 3 | VarKw => 4 end.
Definition kind_after (prev : list param) (k : pkind) : bool :=
  match rev prev with
  | last :: _ => Z.ltb (Z.min (kind_value k) 3) (kind_value (p_kind last))
  | [] => false
  end.

(* with_arg *)
Definition with_arg (b : mb) (nm : name) (dflt : option Z) (k : pkind) (virtual : bool) : res mb :=
  if virtual then
    match k with
    | PosOrKw => Err RuntimeErr
    | _ =>
        if kind_after (m_virtual b) k then Err RuntimeErr
        else
          let args := match m_virtual b with [] => m_args b ++ [kwargs_param] | _ => m_args b end in
          Ok (mkmb args (m_virtual b ++ [mkparam nm k dflt])
                   (match k with VarKw => false | _ => m_check b end))
    end
  else
    if kind_after (m_args b) k then Err RuntimeErr
    else Ok (mkmb (m_args b ++ [mkparam nm k dflt]) (m_virtual b) (m_check b)).

Definition all_names (b : mb) : list name := map p_name (m_args b) ++ map p_name (m_virtual b).

(* with_args(..., virtual=True): keyword-only, each with a default *)
Fixpoint with_virtuals (b : mb) (args : list (name * Z)) : res mb :=
  match args with
  | [] => Ok b
  | (nm, d) :: t =>
      match with_arg b nm (Some d) KwOnly true with
      | Ok b' => with_virtuals b' t
      | Err e => Err e
      end
  end.

Definition with_args (b : mb) (args : list (name * Z)) : res mb :=
  match args with
  | [] => Ok b
  | _ => if existsb (fun p => memb (fst p) (all_names b)) args then Err RuntimeErr
         else with_virtuals b args
  end.

(* what with_spec_attrs_for reads of a spec class *)
Record nattr := mknattr { n_name : name; n_init : bool; n_default : Z }.
Record ncls := mkncls { n_attrs : list nattr; n_overflow : option name }.

Definition active_overflow (n : ncls) : option name :=
  match n_overflow n with Some o => if String.eqb o "" then None else Some o | None => None end.

Definition eligible (b : mb) (n : ncls) (a : nattr) : bool :=
  n_init a && negb (memb (n_name a) (all_names b))
  && match n_overflow n with Some o => negb (String.eqb (n_name a) o) | None => true end.

Definition with_spec_attrs_for (b : mb) (nested : option ncls) : res mb :=
  match nested with
  | None => Ok b
  | Some n =>
      match with_args b (map (fun a => (n_name a, n_default a)) (filter (eligible b n) (n_attrs n))) with
      | Err e => Err e
      | Ok b' =>
          match active_overflow n with
          | Some o => with_arg b' o None VarKw true
          | None => Ok b'
          end
      end
  end.

Definition sig_real (b : mb) : sig := m_args b.
Definition sig_advertised (b : mb) : sig :=
  match m_virtual b with
  | [] => m_args b
  | _ => removelast (m_args b) ++ m_virtual b
  end.

Definition nodup_names (l : list name) : bool :=
  (fix go (l : list name) := match l with [] => true | x :: t => negb (memb x t) && go t end) l.

(* build(): inspect.Signature refuses duplicate parameter names *)
Definition build (b : mb) : res mb :=
  if nodup_names (map p_name (sig_real b)) && nodup_names (map p_name (sig_advertised b))
  then Ok b else Err ValueErr.

(* the compiled wrapper: result = the keyword arguments the implementation is called with *)
Definition wrapper (b : mb) (c : call) : res (list (name * Z)) :=
  match bind (sig_real b) c with
  | Err e => Err e
  | Ok (vals, kwargs) =>
      if (match m_virtual b with [] => false | _ => true end) && m_check b
         && negb (forallb (fun kv => memb (fst kv) (map p_name (m_virtual b))) kwargs)
      then Err TypeErr
      else Ok (vals ++ kwargs)
  end.

(* the method as a state transformer: the state changes only through the implementation *)
Definition invoke {S : Type} (b : mb) (impl : list (name * Z) -> S -> S * res Z) (c : call) (s : S)
  : S * res Z :=
  match wrapper b c with
  | Ok recv => impl recv s
  | Err e => (s, Err e)
  end.

(* ---------- builder programs *)
Inductive op :=
| OArg (nm : name) (dflt : option Z) (k : pkind)      (* with_arg(..., virtual=False) *)
| OSpecAttrs (nested : option ncls).                  (* with_spec_attrs_for *)

Definition step (b : mb) (o : op) : res mb :=
  match o with
  | OArg nm d k => with_arg b nm d k false
  | OSpecAttrs n => with_spec_attrs_for b n
  end.

Fixpoint run (b : mb) (prog : list op) : res mb :=
  match prog with
  | [] => Ok b
  | o :: t => match step b o with Ok b' => run b' t | Err e => Err e end
  end.

Definition build_prog (prog : list op) : res mb :=
  match run mb_init prog with Ok b => build b | Err e => Err e end.

(* ---------- the generated methods *)
(* default codes: 0 MISSING, 1 False, 2 True; >= 10 attribute defaults *)
Definition dMISSING : Z := 0.
Definition dFalse : Z := 1.
Definition dTrue : Z := 2.

Inductive ckind3 := KSeq | KMap | KSet.
Inductive mkind :=
| MInit (key : option (name * bool))          (* key attribute and whether it has a default *)
| MTopUpdate | MTopTransform | MTopReset
| MWith | MUpdate (spec : bool) | MTransform (spec : bool) | MReset   (* spec: attr_spec.spec_type resolves *)
| MElemWith (k : ckind3) (spec : bool) | MElemUpdate (k : ckind3) (spec : bool)
| MElemTransform (k : ckind3) (spec : bool) | MElemWithout (k : ckind3).

Definition opt_missing (spec : bool) : option Z := if spec then Some dMISSING else None.
Definition flags : list op := [OArg "_inplace" (Some dFalse) KwOnly; OArg "_if" (Some dTrue) KwOnly].

(* `nested`: the class handed to with_spec_attrs_for (None: not a spec class) *)
Definition method_prog (m : mkind) (nested : option ncls) : list op :=
  match m with
  | MInit key =>
      (match key with
       | Some (k, has_default) => [OArg k (if has_default then Some dMISSING else None) PosOrKw]
       | None => []
       end) ++ [OSpecAttrs nested]
  | MTopUpdate => OArg "_new_value" (Some dMISSING) PosOrKw :: flags ++ [OSpecAttrs nested]
  | MTopTransform => OArg "_transform" (Some dMISSING) PosOrKw :: flags ++ [OSpecAttrs nested]
  | MTopReset => flags
  | MWith => OArg "_new_value" (Some dMISSING) PosOrKw :: flags ++ [OSpecAttrs nested]
  | MUpdate spec => OArg "_new_value" (opt_missing spec) PosOrKw :: flags ++ [OSpecAttrs nested]
  | MTransform spec => OArg "_transform" (opt_missing spec) PosOrKw :: flags ++ [OSpecAttrs nested]
  | MReset => flags
  | MElemWith KSeq _ =>
      [OArg "_item" (Some dMISSING) PosOrKw; OArg "_index" (Some dMISSING) KwOnly;
       OArg "_insert" (Some dFalse) KwOnly] ++ flags ++ [OSpecAttrs nested]
  | MElemUpdate KSeq _ =>
      [OArg "_value_or_index" None PosOrKw; OArg "_new_item" (Some dMISSING) PosOrKw;
       OArg "_by_index" (Some dMISSING) KwOnly] ++ flags ++ [OSpecAttrs nested]
  | MElemTransform KSeq spec =>
      [OArg "_value_or_index" None PosOrKw; OArg "_transform" (opt_missing spec) PosOrKw;
       OArg "_by_index" (Some dMISSING) KwOnly] ++ flags ++ [OSpecAttrs nested]
  | MElemWithout KSeq =>
      [OArg "_value_or_index" None PosOrKw; OArg "_by_index" (Some dMISSING) KwOnly] ++ flags
  | MElemWith KMap spec =>
      [OArg "_key" None PosOrKw; OArg "_value" (opt_missing spec) PosOrKw] ++ flags ++ [OSpecAttrs nested]
  | MElemUpdate KMap spec =>
      [OArg "_key" None PosOrKw; OArg "_new_item" (opt_missing spec) PosOrKw] ++ flags ++ [OSpecAttrs nested]
  | MElemTransform KMap spec =>
      [OArg "_key" None PosOrKw; OArg "_transform" (opt_missing spec) PosOrKw] ++ flags ++ [OSpecAttrs nested]
  | MElemWithout KMap => OArg "_key" None PosOrKw :: flags
  | MElemWith KSet spec => OArg "_item" (opt_missing spec) PosOrKw :: flags ++ [OSpecAttrs nested]
  | MElemUpdate KSet spec =>
      [OArg "_item" None PosOrKw; OArg "_new_item" (opt_missing spec) PosOrKw] ++ flags ++ [OSpecAttrs nested]
  | MElemTransform KSet spec =>
      [OArg "_item" None PosOrKw; OArg "_transform" (opt_missing spec) PosOrKw] ++ flags ++ [OSpecAttrs nested]
  | MElemWithout KSet => OArg "_item" None PosOrKw :: flags
  end.

Definition build_method (m : mkind) (nested : option ncls) : res mb := build_prog (method_prog m nested).

(* ---------- _check_signature_compatible_with_implementation, for these parameter kinds *)
Definition check_compatible (sig_method sig_impl : sig) : bool :=
  forallb (fun ip =>
    match p_kind ip with
    | VarKw => true
    | PosOrKw => match p_default ip with
                 | None => existsb (fun mp => String.eqb (p_name mp) (p_name ip)) sig_method
                 | Some _ => true
                 end
    | KwOnly => true
    end) sig_impl &&
  forallb (fun mp =>
    match p_kind mp with
    | VarKw => has_varkw sig_impl
    | _ => existsb (fun ip => String.eqb (p_name ip) (p_name mp)) sig_impl || has_varkw sig_impl
    end) sig_method.
