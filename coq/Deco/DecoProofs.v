(* Proofs for C16 (Deco/Decorate.v against Deco/DecoSpec.v). *)
From Coq Require Import String List Bool ZArith Ascii Lia.
From SC Require Import Base.Res Deco.Naming Deco.Decorate Deco.DecoSpec.
Import ListNotations.
Open Scope string_scope.

(* ------------------------------------------------------------------ dicts *)
Lemma eqb_sym_false a b : String.eqb a b = false -> String.eqb b a = false.
Proof. rewrite !String.eqb_neq. congruence. Qed.

Lemma lookup_dset_same {A} n (v : A) l : lookup n (dset n v l) = Some v.
Proof.
  induction l as [|[k w] t IH]; simpl.
  - now rewrite String.eqb_refl.
  - destruct (String.eqb k n) eqn:E; simpl; rewrite E; auto.
Qed.

Lemma lookup_dset_other {A} n n' (v : A) l : n <> n' -> lookup n' (dset n v l) = lookup n' l.
Proof.
  intros Hne. induction l as [|[k w] t IH]; simpl.
  - destruct (String.eqb_spec n n'); [contradiction|reflexivity].
  - destruct (String.eqb_spec k n); simpl.
    + subst. destruct (String.eqb_spec n n'); [contradiction|reflexivity].
    + destruct (String.eqb_spec k n'); auto.
Qed.

Lemma lookup_dset {A} n n' (v : A) l :
  lookup n' (dset n v l) = if String.eqb n n' then Some v else lookup n' l.
Proof.
  destruct (String.eqb_spec n n').
  - subst. apply lookup_dset_same.
  - now apply lookup_dset_other.
Qed.

Lemma mem_dset {A} n n' (v : A) l : mem n' (dset n v l) = String.eqb n n' || mem n' l.
Proof. unfold mem. rewrite lookup_dset. destruct (String.eqb n n'); reflexivity. Qed.

Lemma lookup_In {A} n (v : A) l : lookup n l = Some v -> In (n, v) l.
Proof.
  induction l as [|[k w] t IH]; simpl; [discriminate|].
  destruct (String.eqb_spec k n); intro H.
  - inversion H; subst; auto.
  - auto.
Qed.

Lemma mem_In_fst {A} n (l : list (name * A)) : mem n l = true <-> In n (map fst l).
Proof.
  unfold mem. induction l as [|[k w] t IH]; simpl.
  - split; [discriminate|tauto].
  - destruct (String.eqb_spec k n).
    + subst. split; auto.
    + rewrite IH. split; [auto|]. intros [H|H]; [contradiction|auto].
Qed.

Lemma mem_false_not_In {A} n (l : list (name * A)) : mem n l = false <-> ~ In n (map fst l).
Proof. rewrite <- mem_In_fst. destruct (mem n l); split; congruence. Qed.

Lemma memb_In n l : memb n l = true <-> In n l.
Proof.
  induction l as [|k t IH]; simpl.
  - split; [discriminate|tauto].
  - rewrite orb_true_iff, IH, String.eqb_eq. tauto.
Qed.

Lemma memb_false n l : memb n l = false <-> ~ In n l.
Proof. rewrite <- memb_In. destruct (memb n l); split; congruence. Qed.

Lemma lookup_app {A} n (l1 l2 : list (name * A)) :
  lookup n (l1 ++ l2) = match lookup n l1 with Some v => Some v | None => lookup n l2 end.
Proof.
  induction l1 as [|[k w] t IH]; simpl; auto.
  destruct (String.eqb k n); auto.
Qed.

Lemma lookup_None_not_In {A} n (l : list (name * A)) : lookup n l = None <-> ~ In n (map fst l).
Proof.
  rewrite <- mem_false_not_In. unfold mem. destruct (lookup n l); split; congruence.
Qed.

Lemma map_fst_dset {A} n (v : A) l :
  map fst (dset n v l) = if mem n l then map fst l else (map fst l ++ [n])%list.
Proof.
  unfold mem. induction l as [|[k w] t IH]; simpl; auto.
  destruct (String.eqb_spec k n); simpl.
  - reflexivity.
  - rewrite IH. destruct (lookup n t); reflexivity.
Qed.

Lemma NoDup_snoc {A} (x : A) l : NoDup l -> ~ In x l -> NoDup (l ++ [x]).
Proof.
  induction l as [|y t IH]; simpl; intros Hn Hx.
  - constructor; auto.
  - inversion Hn; subst. constructor.
    + rewrite in_app_iff. simpl. intros [H|[H|[]]]; [auto|subst; auto].
    + apply IH; auto.
Qed.

Lemma NoDup_dset {A} n (v : A) l : NoDup (map fst l) -> NoDup (map fst (dset n v l)).
Proof.
  intro H. rewrite map_fst_dset. destruct (mem n l) eqn:E; auto.
  apply mem_false_not_In in E. now apply NoDup_snoc.
Qed.

Lemma In_map_fst_dset {A} n (v : A) l x : In x (map fst (dset n v l)) <-> x = n \/ In x (map fst l).
Proof.
  rewrite map_fst_dset. destruct (mem n l) eqn:E.
  - apply mem_In_fst in E. split; [auto|]. intros [->|H]; auto.
  - rewrite in_app_iff. simpl. split; [intros [H|[H|[]]]; auto|intros [->|H]; auto].
Qed.

(* fold of dset over a list of keys *)
Lemma fold_dset_keys {A B} (f : B -> name) (g : B -> A) xs acc x :
  In x (map fst (fold_left (fun acc b => dset (f b) (g b) acc) xs acc)) <->
  In x (map f xs) \/ In x (map fst acc).
Proof.
  revert acc. induction xs as [|b t IH]; simpl; intro acc.
  - tauto.
  - rewrite IH, In_map_fst_dset. split; intros; intuition (subst; auto).
Qed.

Lemma fold_dset_NoDup {A B} (f : B -> name) (g : B -> A) xs acc :
  NoDup (map fst acc) -> NoDup (map fst (fold_left (fun acc b => dset (f b) (g b) acc) xs acc)).
Proof.
  revert acc. induction xs as [|b t IH]; simpl; intros acc H; auto.
  apply IH. now apply NoDup_dset.
Qed.

Lemma In_dset {A} n (v : A) l x w : In (x, w) (dset n v l) -> (x = n /\ w = v) \/ In (x, w) l.
Proof.
  induction l as [|[k u] t IH]; simpl.
  - intros [H|[]]. inversion H; auto.
  - destruct (String.eqb_spec k n); simpl.
    + intros [H|H]; [inversion H; subst; auto|auto].
    + intros [H|H]; [auto|]. destruct (IH H); auto.
Qed.

Lemma In_fold_dset {A} (xs : list (name * A)) acc x w :
  In (x, w) (fold_left (fun acc p => dset (fst p) (snd p) acc) xs acc) -> In (x, w) xs \/ In (x, w) acc.
Proof.
  revert acc. induction xs as [|[n v] t IH]; simpl; intro acc; auto.
  intro H. destruct (IH _ H) as [H1|H1]; auto.
  apply In_dset in H1. destruct H1 as [[-> ->]|H1]; auto.
Qed.

(* ------------------------------------------------------------------ user members are kept *)
Section Kept.
  Variable singular : name -> option name.

  Lemma register_method_keeps d p n e :
    lookup n d = Some e -> is_spec_reserved n = false ->
    lookup n (register_method d p) = Some e.
  Proof.
    destruct p as [n' g]. unfold register_method. intros H R.
    destruct (String.eqb_spec n' n).
    - subst. unfold mem. rewrite H, R. simpl. exact H.
    - destruct (mem n' d && negb (is_spec_reserved n')); auto.
      rewrite lookup_dset_other; auto.
  Qed.

  Lemma register_methods_keeps ms d n e :
    lookup n d = Some e -> is_spec_reserved n = false ->
    lookup n (register_methods d ms) = Some e.
  Proof.
    unfold register_methods. revert d. induction ms as [|p t IH]; simpl; intros d H R; auto.
    apply IH; auto. now apply register_method_keeps.
  Qed.

  Lemma lookup_lift_body attrs b n :
    lookup n (lift_body attrs b) =
    match lookup n b with
    | Some m => Some (if mem n attrs && is_decl m then ELifted m else EUser m)
    | None => None
    end.
  Proof.
    induction b as [|[k m] t IH]; simpl; auto.
    destruct (String.eqb_spec k n); subst; auto.
  Qed.

  (* descriptors sit under the name they will write *)
  Definition owns (d : list (name * entry)) : Prop :=
    forall n g, lookup n d = Some (EGen g false) -> gen_name g = n.

  Lemma owns_dset_built d n e :
    owns d -> (forall g, e <> EGen g false) -> owns (dset n e d).
  Proof.
    intros H He n' g. rewrite lookup_dset. destruct (String.eqb_spec n n').
    - intro E. inversion E. subst. exfalso. eapply He; eauto.
    - apply H.
  Qed.

  Lemma owns_register_method d n g :
    owns d -> (is_function g = false -> gen_name g = n) -> owns (register_method d (n, g)).
  Proof.
    intros H Hg. unfold register_method.
    destruct (mem n d && negb (is_spec_reserved n)); auto.
    intros n' g'. rewrite lookup_dset. destruct (String.eqb_spec n n').
    - intro E. inversion E; subst. auto.
    - apply H.
  Qed.

  Lemma owns_register_methods ms d :
    owns d -> Forall (fun p => is_function (snd p) = false -> gen_name (snd p) = fst p) ms ->
    owns (register_methods d ms).
  Proof.
    unfold register_methods. revert d. induction ms as [|[n g] t IH]; simpl; intros d H F; auto.
    inversion F; subst. apply IH; auto. apply owns_register_method; auto.
  Qed.

  Ltac named_tac :=
    repeat (apply Forall_cons; [simpl; first [left; reflexivity | right; reflexivity]|]); try apply Forall_nil.

  Lemma registrations_named c attrs :
    Forall (fun p => gen_name (snd p) = fst p \/ is_function (snd p) = true) (registrations c attrs).
  Proof.
    unfold registrations. apply Forall_app. split.
    - unfold core_methods. repeat (apply Forall_app; split).
      + destruct (c_init c); named_tac.
      + destruct (c_repr c); named_tac.
      + destruct (c_eq c); named_tac.
      + named_tac.
      + simpl. named_tac.
    - apply Forall_flat_map. apply Forall_forall. intros [a s] _. unfold attr_methods.
      destruct (a_helpers s); [|constructor].
      apply Forall_app. split.
      + simpl. named_tac.
      + destruct (a_ty s); [constructor|]. simpl. named_tac.
  Qed.

  Lemma method_table_named regs :
    Forall (fun p => gen_name (snd p) = fst p \/ is_function (snd p) = true) regs ->
    Forall (fun p => is_function (snd p) = false -> gen_name (snd p) = fst p) (method_table regs).
  Proof.
    intro F. apply Forall_forall. intros [n g] Hin. unfold method_table in Hin.
    apply In_fold_dset in Hin. destruct Hin as [Hin|[]].
    rewrite Forall_forall in F. specialize (F _ Hin). simpl in *.
    intro Hf. destruct F as [F|F]; [auto|congruence].
  Qed.

  Lemma use_owns d n : owns d -> owns (use d n).
  Proof.
    intro H. unfold use. destruct (lookup n d) as [[| | | |g [|]]|] eqn:E; auto.
    apply owns_dset_built; auto. intros g' Hc. discriminate.
  Qed.

  Lemma use_keeps d n0 n e :
    owns d -> lookup n d = Some e -> (forall g, e <> EGen g false) -> lookup n (use d n0) = Some e.
  Proof.
    intros H L He. unfold use. destruct (lookup n0 d) as [[| | | |g [|]]|] eqn:E; auto.
    rewrite (H _ _ E). rewrite lookup_dset_other; auto.
    intro; subst. rewrite E in L. inversion L. subst. eapply He; eauto.
  Qed.

  Lemma use_all_keeps ns d n e :
    owns d -> lookup n d = Some e -> (forall g, e <> EGen g false) ->
    lookup n (use_all d ns) = Some e /\ owns (use_all d ns).
  Proof.
    unfold use_all. revert d. induction ns as [|n0 t IH]; simpl; intros d H L He; auto.
    apply IH; auto using use_owns, use_keeps.
  Qed.

  Lemma use_all_owns ns d : owns d -> owns (use_all d ns).
  Proof.
    unfold use_all. revert d. induction ns as [|n0 t IH]; simpl; intros d H; auto using use_owns.
  Qed.

  (* the dictionary produced by decorate, step by step *)
  Lemma decorate_with_inv resolver c k d :
    decorate_with singular resolver c k = Ok d ->
    exists a2,
      existsb is_private (map fst (dattrs c)) = false /\
      ctor_clash c = false /\
      resolver (map fst (attrs1 singular c k)) (attrs1 singular c k) = Ok a2 /\
      d_attrs d = a2 /\ d_annots d = annots_after k a2 /\
      let d0 := lift_body (attrs1 singular c k) (body k) in
      let d1 := if mem "__annotations__" d0 then d0 else dset "__annotations__" EMeta d0 in
      let d2 := dset "__dataclass_fields__" EMeta (dset "__spec_class__" EMeta d1) in
      let d3 := register_methods d2 (method_table (registrations c a2)) in
      d_dict d = if c_lazy c then dset "__new__" (EGen GNewHook true) d3 else d3.
  Proof.
    unfold decorate_with. destruct (existsb is_private (map fst (dattrs c))); [discriminate|].
    destruct (resolver _ _) as [a2|e]; [|discriminate].
    destruct (ctor_clash c); [discriminate|].
    intro H. inversion H; subst; simpl. exists a2. repeat split; auto.
  Qed.

  Lemma lift_body_owns attrs b : owns (lift_body attrs b).
  Proof.
    intros n g. rewrite lookup_lift_body. destruct (lookup n b); [|discriminate].
    destruct (mem n attrs && is_decl m); discriminate.
  Qed.

  Lemma decorate_with_owns resolver c k d :
    decorate_with singular resolver c k = Ok d -> owns (d_dict d).
  Proof.
    intro H. apply decorate_with_inv in H. destruct H as (a2 & _ & _ & _ & _ & _ & Hd). simpl in Hd.
    rewrite Hd.
    assert (owns (register_methods
      (dset "__dataclass_fields__" EMeta (dset "__spec_class__" EMeta
        (if mem "__annotations__" (lift_body (attrs1 singular c k) (body k))
         then lift_body (attrs1 singular c k) (body k)
         else dset "__annotations__" EMeta (lift_body (attrs1 singular c k) (body k)))))
      (method_table (registrations c a2)))) as Ho.
    { apply owns_register_methods.
      - repeat apply owns_dset_built; try (intros g Hc; discriminate).
        destruct (mem _ _); [apply lift_body_owns|].
        apply owns_dset_built; [apply lift_body_owns|intros g Hc; discriminate].
      - apply method_table_named, registrations_named. }
    destruct (c_lazy c); auto.
    apply owns_dset_built; auto. intros g Hc; discriminate.
  Qed.

  Lemma instantiate_owns c k d : owns d -> owns (instantiate c k d).
  Proof.
    intro H. unfold instantiate. destruct (c_lazy c); auto.
    destruct (lookup "__new__" (body k)) as [m|]; [destruct (wraps m)|]; apply owns_dset_built; auto; intros g Hc; discriminate.
  Qed.

  Lemma resolve_keys names taken todo r :
    resolve names taken todo = Ok r -> map fst r = map fst todo.
  Proof.
    revert taken r. induction todo as [|[a s] t IH]; simpl; intros taken r H.
    - inversion H; auto.
    - destruct (is_coll s).
      + destruct (memb (a_item s) names || memb (a_item s) taken).
        * destruct (negb (memb (item_fallback a) names) && negb (memb (item_fallback a) taken)); [|discriminate].
          destruct (resolve names (item_fallback a :: taken) t) eqn:E; [|discriminate].
          inversion H; subst. simpl. f_equal. eauto.
        * destruct (resolve names (a_item s :: taken) t) eqn:E; [|discriminate].
          inversion H; subst. simpl. f_equal. eauto.
      + destruct (resolve names taken t) eqn:E; [|discriminate].
        inversion H; subst. simpl. f_equal. eauto.
  Qed.

  Lemma resolve_old_keys names todo r :
    resolve_old names todo = Ok r -> map fst r = map fst todo.
  Proof.
    revert r. induction todo as [|[a s] t IH]; simpl; intros r H.
    - inversion H; auto.
    - destruct (is_coll s && memb (a_item s) names).
      + destruct (negb (memb (item_fallback a) names)); [|discriminate].
        destruct (resolve_old names t) eqn:E; [|discriminate].
        inversion H; subst. simpl. f_equal. eauto.
      + destruct (resolve_old names t) eqn:E; [|discriminate].
        inversion H; subst. simpl. f_equal. eauto.
  Qed.

  Lemma mem_same_keys {A B} (l1 : list (name * A)) (l2 : list (name * B)) n :
    map fst l1 = map fst l2 -> mem n l1 = mem n l2.
  Proof.
    intro H. destruct (mem n l2) eqn:E.
    - apply mem_In_fst. rewrite H. now apply mem_In_fst.
    - apply mem_false_not_In. rewrite H. now apply mem_false_not_In.
  Qed.

  Definition keeps_keys (resolver : list name -> list (name * aspec) -> res (list (name * aspec))) :=
    forall names todo r, resolver names todo = Ok r -> map fst r = map fst todo.

  (* the entry of a body member right after decoration *)
  Lemma decorate_with_body_entry resolver c k d n m :
    keeps_keys resolver ->
    decorate_with singular resolver c k = Ok d ->
    lookup n (body k) = Some m -> reserved n = false ->
    (n <> "__new__" \/ c_lazy c = false) ->
    lookup n (d_dict d) =
      Some (if mem n (d_attrs d) && is_decl m then ELifted m else EUser m).
  Proof.
    intros HK H L R Hn. apply decorate_with_inv in H.
    destruct H as (a2 & _ & _ & Hres & Ha & _ & Hd). simpl in Hd.
    unfold reserved in R. apply orb_false_iff in R. destruct R as [R1 R2].
    apply String.eqb_neq in R2.
    assert (Hl0 : lookup n (lift_body (attrs1 singular c k) (body k)) =
                  Some (if mem n (attrs1 singular c k) && is_decl m then ELifted m else EUser m)).
    { rewrite lookup_lift_body, L. reflexivity. }
    rewrite (mem_same_keys (attrs1 singular c k) a2) in Hl0 by (symmetry; eapply HK; eauto).
    rewrite <- Ha in Hl0.
    set (e := if mem n (d_attrs d) && is_decl m then ELifted m else EUser m) in *.
    assert (Hl3 : lookup n (register_methods
      (dset "__dataclass_fields__" EMeta (dset "__spec_class__" EMeta
        (if mem "__annotations__" (lift_body (attrs1 singular c k) (body k))
         then lift_body (attrs1 singular c k) (body k)
         else dset "__annotations__" EMeta (lift_body (attrs1 singular c k) (body k)))))
      (method_table (registrations c a2))) = Some e).
    { apply register_methods_keeps; auto.
      rewrite lookup_dset_other by congruence.
      rewrite lookup_dset_other by (intro; subst; discriminate).
      destruct (mem "__annotations__" _) eqn:E; auto.
      rewrite lookup_dset_other; auto.
      intro; subst. unfold mem in E. rewrite Hl0 in E. discriminate. }
    rewrite Hd.
    destruct (c_lazy c); auto.
    rewrite lookup_dset_other; auto. destruct Hn; congruence.
  Qed.

  (* ---- C16_user_members_kept *)
  Theorem user_members_kept c k d n m uses :
    decorate singular c k = Ok d ->
    lookup n (body k) = Some m -> reserved n = false -> is_decl m = false ->
    (n <> "__new__" \/ c_lazy c = false) ->
    kept m (lookup n (d_dict d)) /\
    kept m (lookup n (use_all (d_dict d) uses)) /\
    kept m (lookup n (use_all (instantiate c k (d_dict d)) uses)).
  Proof.
    intros H L R Hd Hn. unfold kept.
    assert (E : lookup n (d_dict d) = Some (EUser m)).
    { erewrite decorate_with_body_entry; eauto.
      - rewrite Hd, andb_false_r. reflexivity.
      - intros names todo r. apply resolve_keys. }
    assert (Ho : owns (d_dict d)) by (eapply decorate_with_owns; eauto).
    split; [exact E|]. split.
    - apply use_all_keeps; auto. intros g Hc; discriminate.
    - apply use_all_keeps; [now apply instantiate_owns| |intros g Hc; discriminate].
      unfold instantiate. destruct (c_lazy c) eqn:Lz; auto.
      destruct Hn as [Hn|Hn]; [|discriminate].
      destruct (lookup "__new__" (body k)); rewrite lookup_dset_other; auto.
  Qed.

  (* declarations (Attr / dataclasses.field) are replaced by their default
     exactly when the attribute gets a specification; otherwise kept *)
  Theorem declarations_lifted_iff_specified c k d n m uses :
    decorate singular c k = Ok d ->
    lookup n (body k) = Some m -> reserved n = false -> is_decl m = true ->
    (n <> "__new__" \/ c_lazy c = false) ->
    let e := if mem n (d_attrs d) then ELifted m else EUser m in
    lookup n (d_dict d) = Some e /\
    lookup n (use_all (instantiate c k (d_dict d)) uses) = Some e.
  Proof.
    intros H L R Hd Hn e.
    assert (E : lookup n (d_dict d) = Some e).
    { erewrite decorate_with_body_entry; eauto.
      - rewrite Hd, andb_true_r. reflexivity.
      - intros names todo r. apply resolve_keys. }
    assert (Ho : owns (d_dict d)) by (eapply decorate_with_owns; eauto).
    split; [exact E|].
    apply use_all_keeps; [now apply instantiate_owns| |subst e; destruct (mem n (d_attrs d)); intros g Hc; discriminate].
    unfold instantiate. destruct (c_lazy c) eqn:Lz; auto.
    destruct Hn as [Hn|Hn]; [|discriminate].
    destruct (lookup "__new__" (body k)); rewrite lookup_dset_other; auto.
  Qed.

  (* a user-written __new__ of a lazily bootstrapped class: after the first
     instantiation the dictionary holds the function the user wrote, without
     its staticmethod wrapper *)
  Theorem user_new_unwrapped c k d m uses :
    decorate singular c k = Ok d -> c_lazy c = true ->
    lookup "__new__" (body k) = Some m ->
    lookup "__new__" (use_all (instantiate c k (d_dict d)) uses) =
      Some (if wraps m then EUnwrapped m else EUser m).
  Proof.
    intros H Lz L.
    assert (Ho : owns (d_dict d)) by (eapply decorate_with_owns; eauto).
    apply use_all_keeps; [now apply instantiate_owns| |destruct (wraps m); intros g Hc; discriminate].
    unfold instantiate. rewrite Lz, L. apply lookup_dset_same.
  Qed.
End Kept.

(* ------------------------------------------------------------------ names *)
Lemma sprefix_inj p q a b : scalar_name p a = scalar_name q b -> p = q /\ a = b.
Proof. unfold scalar_name. destruct p, q; simpl; intro H; try discriminate; split; congruence. Qed.

Lemma eprefix_inj p q a b : elem_name p a = elem_name q b -> p = q /\ a = b.
Proof. unfold elem_name. destruct p, q; simpl; intro H; try discriminate; split; congruence. Qed.

Lemma scalar_elem_eq p q a b : scalar_name p a = elem_name q b -> a = b.
Proof. unfold scalar_name, elem_name. destruct p, q; simpl; intro H; try discriminate; congruence. Qed.

Definition first_is_underscore (n : name) : bool := prefix "_" n.

Lemma scalar_name_letter p a : first_is_underscore (scalar_name p a) = false.
Proof. destruct p; reflexivity. Qed.
Lemma elem_name_letter p a : first_is_underscore (elem_name p a) = false.
Proof. destruct p; reflexivity. Qed.

Lemma scalar_not_top p a t : scalar_name p a <> top_name t.
Proof. unfold scalar_name. destruct p, t; simpl; intro H; discriminate. Qed.
Lemma elem_not_top p a t : elem_name p a <> top_name t.
Proof. unfold elem_name. destruct p, t; simpl; intro H; discriminate. Qed.

(* ------------------------------------------------------------------ the collision loop, relationally *)
Fixpoint follows (names taken : list name) (todo r : list (name * aspec)) : Prop :=
  match todo, r with
  | [], [] => True
  | (a, s) :: t, (a', s') :: r' =>
      a' = a /\ a_ty s' = a_ty s /\ a_helpers s' = a_helpers s /\
      if is_coll s then
        ~ In (a_item s') names /\ ~ In (a_item s') taken /\
        (a_item s' = a_item s \/
         (a_item s' = item_fallback a /\ (In (a_item s) names \/ In (a_item s) taken))) /\
        follows names (a_item s' :: taken) t r'
      else a_item s' = a_item s /\ follows names taken t r'
  | _, _ => False
  end.

Lemma resolve_follows names taken todo r :
  resolve names taken todo = Ok r -> follows names taken todo r.
Proof.
  revert taken r. induction todo as [|[a s] t IH]; simpl; intros taken r H.
  - inversion H; simpl; auto.
  - destruct (is_coll s) eqn:Ec.
    + destruct (memb (a_item s) names || memb (a_item s) taken) eqn:Em.
      * destruct (negb (memb (item_fallback a) names) && negb (memb (item_fallback a) taken)) eqn:Ef; [|discriminate].
        destruct (resolve names (item_fallback a :: taken) t) eqn:E; [|discriminate].
        inversion H; subst. simpl.
        apply andb_true_iff in Ef. destruct Ef as [F1 F2].
        apply negb_true_iff in F1, F2. apply memb_false in F1, F2.
        apply orb_true_iff in Em. rewrite !memb_In in Em.
        repeat split; auto.
      * destruct (resolve names (a_item s :: taken) t) eqn:E; [|discriminate].
        inversion H; subst. simpl.
        apply orb_false_iff in Em. destruct Em as [F1 F2]. apply memb_false in F1, F2.
        repeat split; auto.
    + destruct (resolve names taken t) eqn:E; [|discriminate].
      inversion H; subst. simpl. repeat split; auto.
Qed.

Lemma is_coll_ty s s' : a_ty s' = a_ty s -> is_coll s' = is_coll s.
Proof. unfold is_coll. intros ->. reflexivity. Qed.

(* every collection item name of the result avoids names and taken *)
Lemma follows_avoid names taken todo r :
  follows names taken todo r ->
  forall a s', In (a, s') r -> is_coll s' = true -> ~ In (a_item s') names /\ ~ In (a_item s') taken.
Proof.
  revert taken r. induction todo as [|[a0 s0] t IH]; intros taken [|[a1 s1] r'] F; simpl in F; try tauto; try (intros; simpl in *; tauto).
  destruct F as (-> & Ht & Hh & F). intros a s' [Hin|Hin] Hc.
    + inversion Hin; subst. rewrite <- (is_coll_ty _ _ Ht), Hc in F. tauto.
    + destruct (is_coll s0).
      * destruct F as (_ & _ & _ & F). destruct (IH _ _ F _ _ Hin Hc) as [H1 H2].
        split; auto. intro; apply H2; right; auto.
      * destruct F as (_ & F). eapply IH; eauto.
Qed.

Lemma follows_inj names taken todo r :
  follows names taken todo r ->
  forall a s1 b s2, In (a, s1) r -> In (b, s2) r -> is_coll s1 = true -> is_coll s2 = true ->
    a_item s1 = a_item s2 -> (a, s1) = (b, s2).
Proof.
  revert taken r. induction todo as [|[a0 s0] t IH]; intros taken [|[a1 s1'] r'] F; simpl in F; try tauto; try (intros; simpl in *; tauto).
  destruct F as (-> & Ht & Hh & F). intros a s1 b s2 H1 H2 C1 C2 E.
    destruct (is_coll s0) eqn:Ec.
    + destruct F as (_ & _ & _ & F).
      destruct H1 as [H1|H1], H2 as [H2|H2].
      * congruence.
      * inversion H1; subst. destruct (follows_avoid _ _ _ _ F _ _ H2 C2) as [_ Hn].
        exfalso. apply Hn. left. auto.
      * inversion H2; subst. destruct (follows_avoid _ _ _ _ F _ _ H1 C1) as [_ Hn].
        exfalso. apply Hn. left. auto.
      * eapply IH; eauto.
    + destruct F as (_ & F).
      assert (is_coll s1' = false) as Hf by (rewrite (is_coll_ty _ _ Ht); auto).
      destruct H1 as [H1|H1]; [inversion H1; subst; congruence|].
      destruct H2 as [H2|H2]; [inversion H2; subst; congruence|].
      eapply IH; eauto.
Qed.

(* pointwise relation with the input *)
Lemma follows_pointwise names taken todo r :
  follows names taken todo r ->
  forall a s', In (a, s') r ->
    exists s, In (a, s) todo /\ a_ty s' = a_ty s /\ a_helpers s' = a_helpers s /\
              (a_item s' = a_item s \/ a_item s' = item_fallback a).
Proof.
  revert taken r. induction todo as [|[a0 s0] t IH]; intros taken [|[a1 s1] r'] F; simpl in F; try tauto; try (intros; simpl in *; tauto).
  destruct F as (-> & Ht & Hh & F). intros a s' [Hin|Hin].
    + inversion Hin; subst. exists s0. split; [left; auto|]. repeat split; auto.
      destruct (is_coll s0); [|tauto]. destruct F as (_ & _ & [E|[E _]] & _); auto.
    + assert (exists tk, follows names tk t r') as [tk F'].
      { destruct (is_coll s0); [exists (a_item s1 :: taken)|exists taken]; tauto. }
      destruct (IH _ _ F' _ _ Hin) as (s & Hs & R). exists s. split; [right; auto|auto].
Qed.

(* a fallback is used only on a collision: with an attribute name, with a name
   in `taken`, or with the item name of another collection of the result *)
Lemma follows_cause names taken todo r :
  follows names taken todo r ->
  forall a s', In (a, s') r -> is_coll s' = true ->
    exists s, In (a, s) todo /\
      (a_item s' = a_item s \/
       (a_item s' = item_fallback a /\ a_item s' <> a_item s /\
        (In (a_item s) names \/ In (a_item s) taken \/
         exists b sb, In (b, sb) r /\ is_coll sb = true /\ a_item sb = a_item s))).
Proof.
  revert taken r. induction todo as [|[a0 s0] t IH]; intros taken [|[a1 s1] r'] F; simpl in F; try tauto; try (intros; simpl in *; tauto).
  destruct F as (-> & Ht & Hh & F). intros a s' [Hin|Hin] Hc.
    + inversion Hin; subst. exists s0. split; [left; auto|].
      rewrite <- (is_coll_ty _ _ Ht), Hc in F.
      destruct F as (N1 & N2 & [E|[E Hcause]] & _); auto.
      right. split; auto. split.
      * intro E2. rewrite E2 in N1, N2. tauto.
      * tauto.
    + destruct (is_coll s0) eqn:Ec.
      * destruct F as (_ & _ & _ & F).
        destruct (IH _ _ F _ _ Hin Hc) as (s & Hs & [E|(E & Ne & Hcause)]).
        -- exists s. split; [right; auto|auto].
        -- exists s. split; [right; auto|]. right. split; auto. split; auto.
           destruct Hcause as [H|[[H|H]|(b & sb & Hb & Cb & Eb)]]; auto.
           ++ right. right. exists a0, s1. split; [left; auto|].
              split; [rewrite (is_coll_ty _ _ Ht); auto|auto].
           ++ right. right. exists b, sb. split; [right; auto|auto].
      * destruct F as (_ & F).
        destruct (IH _ _ F _ _ Hin Hc) as (s & Hs & [E|(E & Ne & Hcause)]).
        -- exists s. split; [right; auto|auto].
        -- exists s. split; [right; auto|]. right. split; auto. split; auto.
           destruct Hcause as [H|[H|(b & sb & Hb & Cb & Eb)]]; auto.
           right. right. exists b, sb. split; [right; auto|auto].
Qed.

(* ------------------------------------------------------------------ more list facts *)
Fixpoint nodupb (l : list name) : bool :=
  match l with [] => true | x :: t => negb (memb x t) && nodupb t end.

Lemma nodupb_NoDup l : nodupb l = true -> NoDup l.
Proof.
  induction l as [|x t IH]; simpl; intro H; constructor.
  - apply andb_true_iff in H. destruct H as [H _]. apply negb_true_iff in H. now apply memb_false.
  - apply IH. apply andb_true_iff in H. tauto.
Qed.

Lemma NoDup_keys_functional {A} (l : list (name * A)) n v1 v2 :
  NoDup (map fst l) -> In (n, v1) l -> In (n, v2) l -> v1 = v2.
Proof.
  induction l as [|[k w] t IH]; simpl; intros Hn H1 H2; [tauto|].
  inversion Hn; subst.
  destruct H1 as [H1|H1], H2 as [H2|H2].
  - congruence.
  - inversion H1; subst. exfalso. apply H3. apply in_map_iff. exists (n, v2). auto.
  - inversion H2; subst. exfalso. apply H3. apply in_map_iff. exists (n, v1). auto.
  - auto.
Qed.

Lemma NoDup_keys_lookup {A} (l : list (name * A)) n v :
  NoDup (map fst l) -> In (n, v) l -> lookup n l = Some v.
Proof.
  intros Hn Hin. destruct (lookup n l) eqn:E.
  - apply lookup_In in E. f_equal. eapply NoDup_keys_functional; eauto.
  - apply lookup_None_not_In in E. exfalso. apply E. apply in_map_iff. exists (n, v). auto.
Qed.

Lemma In_fold_dset_gen {A B} (f : B -> name) (g : B -> A) xs acc x w :
  In (x, w) (fold_left (fun acc b => dset (f b) (g b) acc) xs acc) ->
  (exists b, In b xs /\ x = f b /\ w = g b) \/ In (x, w) acc.
Proof.
  revert acc. induction xs as [|b t IH]; simpl; intro acc; auto.
  intro H. destruct (IH _ H) as [(b' & Hb & E)|H1].
  - left. exists b'. auto.
  - apply In_dset in H1. destruct H1 as [[-> ->]|H1]; auto. left. exists b. auto.
Qed.

(* fold of dset = "last binding wins" *)
Lemma lookup_fold_dset {A} (xs : list (name * A)) acc n :
  lookup n (fold_left (fun acc p => dset (fst p) (snd p) acc) xs acc) =
  match lookup n (rev xs) with Some v => Some v | None => lookup n acc end.
Proof.
  revert acc. induction xs as [|[k v] t IH]; simpl; intro acc; auto.
  rewrite IH, lookup_app. destruct (lookup n (rev t)); auto.
  simpl. rewrite lookup_dset. destruct (String.eqb k n); auto.
Qed.

Lemma lookup_functional_table {A} (xs : list (name * A)) n v :
  In (n, v) xs -> (forall v', In (n, v') xs -> v' = v) ->
  lookup n (fold_left (fun acc p => dset (fst p) (snd p) acc) xs []) = Some v.
Proof.
  intros Hin Hf. rewrite lookup_fold_dset.
  destruct (lookup n (rev xs)) eqn:E.
  - apply lookup_In in E. apply in_rev in E. f_equal. auto.
  - apply lookup_None_not_In in E. exfalso. apply E.
    apply in_map_iff. exists (n, v). split; auto. now apply in_rev in Hin.
Qed.

Lemma lookup_table_None {A} (xs : list (name * A)) n :
  ~ In n (map fst xs) ->
  lookup n (fold_left (fun acc p => dset (fst p) (snd p) acc) xs []) = None.
Proof.
  intro H. rewrite lookup_fold_dset.
  destruct (lookup n (rev xs)) eqn:E; auto.
  apply lookup_In in E. apply in_rev in E. exfalso. apply H. apply in_map_iff. exists (n, a). auto.
Qed.

(* registering a table with distinct keys *)
Lemma register_methods_lookup ms d n :
  NoDup (map fst ms) ->
  lookup n (register_methods d ms) =
  match lookup n ms with
  | Some g => if mem n d && negb (is_spec_reserved n) then lookup n d
              else Some (EGen g (is_function g))
  | None => lookup n d
  end.
Proof.
  unfold register_methods. revert d. induction ms as [|[k g] t IH]; simpl; intros d Hn; auto.
  inversion Hn; subst. rewrite IH by auto.
  destruct (String.eqb_spec k n).
  - subst. assert (lookup n t = None) as -> by (now apply lookup_None_not_In).
    destruct (mem n d && negb (is_spec_reserved n)); auto. apply lookup_dset_same.
  - assert (E1 : lookup n (if mem k d && negb (is_spec_reserved k) then d
                          else dset k (EGen g (is_function g)) d) = lookup n d).
    { destruct (mem k d && negb (is_spec_reserved k)); auto. now apply lookup_dset_other. }
    assert (E2 : mem n (if mem k d && negb (is_spec_reserved k) then d
                       else dset k (EGen g (is_function g)) d) = mem n d).
    { unfold mem at 1 3. rewrite E1. reflexivity. }
    rewrite E1, E2. reflexivity.
Qed.

(* ------------------------------------------------------------------ the attribute table *)
Section Attrs.
  Variable singular : name -> option name.

  Lemma attrs0_In c k a s :
    In (a, s) (attrs0 singular c k) -> s = mk_aspec singular c k a true /\ In a (managed_attrs c k).
  Proof.
    unfold attrs0. intro H. apply In_fold_dset_gen in H. destruct H as [(b & Hb & -> & ->)|[]]. auto.
  Qed.

  Lemma attrs0_keys c k a : In a (map fst (attrs0 singular c k)) <-> In a (managed_attrs c k).
  Proof.
    unfold attrs0. rewrite (fold_dset_keys (fun a => a) (fun a => mk_aspec singular c k a true)).
    rewrite map_id. simpl. tauto.
  Qed.

  Lemma attrs0_NoDup c k : NoDup (map fst (attrs0 singular c k)).
  Proof. unfold attrs0. apply fold_dset_NoDup. constructor. Qed.

  Lemma attrs1_In c k a s :
    In (a, s) (attrs1 singular c k) ->
    (s = mk_aspec singular c k a true /\ In a (managed_attrs c k)) \/
    (a_helpers s = false).
  Proof.
    unfold attrs1. destruct (active (c_key c)) as [key|]; [|left; now apply attrs0_In].
    destruct (mem key (attrs0 singular c k)); [left; now apply attrs0_In|].
    rewrite in_app_iff. intros [H|[H|[]]]; [left; now apply attrs0_In|].
    inversion H; subst. right. reflexivity.
  Qed.

  Lemma attrs1_NoDup c k : NoDup (map fst (attrs1 singular c k)).
  Proof.
    unfold attrs1. destruct (active (c_key c)) as [key|]; [|apply attrs0_NoDup].
    destruct (mem key (attrs0 singular c k)) eqn:E; [apply attrs0_NoDup|].
    rewrite map_app. simpl. apply NoDup_snoc; [apply attrs0_NoDup|now apply mem_false_not_In].
  Qed.

  Lemma attrs1_helpers c k a :
    In a (managed_attrs c k) ->
    In (a, mk_aspec singular c k a true) (attrs1 singular c k).
  Proof.
    intro H. assert (In (a, mk_aspec singular c k a true) (attrs0 singular c k)) as H0.
    { apply attrs0_keys in H. apply in_map_iff in H. destruct H as ([a' s] & E & Hin). simpl in E. subst.
      destruct (attrs0_In _ _ _ _ Hin) as [-> _]. exact Hin. }
    unfold attrs1. destruct (active (c_key c)) as [key|]; auto.
    destruct (mem key (attrs0 singular c k)); auto. apply in_app_iff. auto.
  Qed.
End Attrs.

(* ------------------------------------------------------------------ who is managed *)
Lemma nonempty_false {A} (o : option (list A)) : nonempty o = false <-> olist o = [].
Proof. destruct o as [[|x t]|]; simpl; split; intro H; try reflexivity; discriminate. Qed.

Lemma inherit_iff c : inherit_annotations c = true <-> uses_annotations c.
Proof.
  unfold inherit_annotations, uses_annotations. rewrite orb_true_iff, negb_true_iff, orb_false_iff, !nonempty_false.
  destruct (c_attrs_skip c); simpl.
  - split; intros _; right; [discriminate|reflexivity].
  - split; (intros [H|H]; [left; exact H|]); [discriminate|exfalso; apply H; reflexivity].
Qed.

Lemma active_Some o a : active o = Some a <-> (o = Some a /\ a <> "").
Proof.
  unfold active. destruct o as [n|]; [|split; [discriminate|intros [H _]; discriminate]].
  destruct (String.eqb_spec n ""); split.
  - discriminate.
  - intros [H Hn]. inversion H; subst. contradiction.
  - intro H. inversion H; subst. auto.
  - intros [H Hn]. exact H.
Qed.

Lemma dattrs_keys c a :
  In a (map fst (dattrs c)) <->
  In a (olist (c_attrs c)) \/ In a (map fst (olist (c_attrs_typed c))) \/ (c_overflow c = Some a /\ a <> "").
Proof.
  unfold dattrs.
  set (l1 := fold_left (fun acc a => dset a None acc) (olist (c_attrs c)) []).
  set (l2 := fold_left (fun acc p => dset (fst p) (snd p) acc) (olist (c_attrs_typed c)) l1).
  assert (H1 : In a (map fst l1) <-> In a (olist (c_attrs c))).
  { unfold l1. rewrite (fold_dset_keys (fun a => a) (fun _ => @None aty)). rewrite map_id. simpl. tauto. }
  assert (H2 : In a (map fst l2) <-> In a (map fst (olist (c_attrs_typed c))) \/ In a (olist (c_attrs c))).
  { unfold l2. rewrite (fold_dset_keys fst snd). rewrite H1. tauto. }
  destruct (active (c_overflow c)) as [o|] eqn:E.
  - rewrite In_map_fst_dset, H2. apply active_Some in E.
    split.
    + intros [->|[H|H]]; auto.
    + intros [H|[H|[H Hn]]]; auto. left. destruct E as [E _]. congruence.
  - rewrite H2. split; [tauto|]. intros [H|[H|H]]; auto.
    apply active_Some in H. congruence.
Qed.

Lemma managed_iff_requested c k a :
  existsb is_private (map fst (dattrs c)) = false ->
  (In a (managed_attrs c k) <-> requested c k a).
Proof.
  intro Hp. unfold managed_attrs, requested. rewrite in_app_iff, dattrs_keys.
  destruct (inherit_annotations c) eqn:Ei.
  - apply inherit_iff in Ei. rewrite filter_In, andb_true_iff, !negb_true_iff, memb_false. tauto.
  - assert (~ uses_annotations c) by (rewrite <- inherit_iff; congruence). simpl. tauto.
Qed.

Lemma managed_not_private c k a :
  existsb is_private (map fst (dattrs c)) = false ->
  In a (managed_attrs c k) -> is_private a = false.
Proof.
  intros Hp. unfold managed_attrs. rewrite in_app_iff. intros [H|H].
  - destruct (inherit_annotations c); [|destruct H].
    apply filter_In in H. destruct H as [_ H]. apply andb_true_iff in H. destruct H as [H _].
    now apply negb_true_iff in H.
  - destruct (is_private a) eqn:E; auto.
    assert (existsb is_private (map fst (dattrs c)) = true) by (apply existsb_exists; eauto).
    congruence.
Qed.

(* ------------------------------------------------------------------ registrations *)
Lemma core_methods_NoDup c : NoDup (map fst (core_methods c)).
Proof. apply nodupb_NoDup. destruct c as [? [|] [|] [|] ? ? ? ? ?]; reflexivity. Qed.

Lemma core_methods_shape c n g :
  In (n, g) (core_methods c) ->
  (first_is_underscore n = true /\ helper_gen g = false) \/ (exists t, n = top_name t /\ g = GTop t).
Proof.
  unfold core_methods. rewrite !in_app_iff. intros [H|[H|[H|[H|H]]]].
  - destruct (c_init c); [|destruct H]. destruct H as [H|[]]. inversion H; subst. left; auto.
  - destruct (c_repr c); [|destruct H]. destruct H as [H|[]]. inversion H; subst. left; auto.
  - destruct (c_eq c); [|destruct H]. destruct H as [H|[]]. inversion H; subst. left; auto.
  - simpl in H. repeat (destruct H as [H|H]; [inversion H; subst; left; auto|]). destruct H.
  - apply in_map_iff in H. destruct H as (t & E & _). inversion E; subst. right. eauto.
Qed.

Lemma attr_methods_shape attrs n g :
  In (n, g) (flat_map attr_methods attrs) ->
  exists a s, In (a, s) attrs /\ a_helpers s = true /\
    ((exists p, n = scalar_name p a /\ g = GScalar p a) \/
     (exists p kd, a_ty s = TColl kd /\ n = elem_name p (a_item s) /\ g = GElem p a kd (a_item s))).
Proof.
  intro H. apply in_flat_map in H. destruct H as ([a s] & Hin & H). exists a, s. split; auto.
  unfold attr_methods in H. destruct (a_helpers s); [|destruct H]. split; auto.
  apply in_app_iff in H. destruct H as [H|H].
  - apply in_map_iff in H. destruct H as (p & E & _). inversion E; subst. left. eauto.
  - destruct (a_ty s) as [|kd] eqn:Et; [destruct H|].
    apply in_map_iff in H. destruct H as (p & E & _). inversion E; subst. right. eauto.
Qed.

Lemma attr_methods_scalar attrs a s p :
  In (a, s) attrs -> a_helpers s = true ->
  In (scalar_name p a, GScalar p a) (flat_map attr_methods attrs).
Proof.
  intros Hin Hh. apply in_flat_map. exists (a, s). split; auto.
  unfold attr_methods. rewrite Hh. apply in_app_iff. left.
  apply in_map_iff. exists p. split; auto. destruct p; simpl; auto.
Qed.

Lemma attr_methods_elem attrs a s p kd :
  In (a, s) attrs -> a_helpers s = true -> a_ty s = TColl kd ->
  In (elem_name p (a_item s), GElem p a kd (a_item s)) (flat_map attr_methods attrs).
Proof.
  intros Hin Hh Ht. apply in_flat_map. exists (a, s). split; auto.
  unfold attr_methods. rewrite Hh, Ht. apply in_app_iff. right.
  apply in_map_iff. exists p. split; auto. destruct p; simpl; auto.
Qed.

(* an attribute table in which element names shadow nothing *)
Definition unambiguous (attrs : list (name * aspec)) : Prop :=
  (forall a s, In (a, s) attrs -> is_coll s = true -> ~ In (a_item s) (map fst attrs)) /\
  (forall a s1 b s2, In (a, s1) attrs -> In (b, s2) attrs -> is_coll s1 = true -> is_coll s2 = true ->
     a_item s1 = a_item s2 -> (a, s1) = (b, s2)).

Lemma is_coll_TColl s kd : a_ty s = TColl kd -> is_coll s = true.
Proof. unfold is_coll. intros ->. reflexivity. Qed.

Lemma registrations_functional c attrs n g1 g2 :
  unambiguous attrs ->
  In (n, g1) (registrations c attrs) -> In (n, g2) (registrations c attrs) -> g1 = g2.
Proof.
  intros [U1 U2]. unfold registrations. rewrite !in_app_iff. intros [H1|H1] [H2|H2].
  - eapply NoDup_keys_functional; eauto using core_methods_NoDup.
  - exfalso. apply core_methods_shape in H1. apply attr_methods_shape in H2.
    destruct H2 as (a & s & _ & _ & [(p & -> & _)|(p & kd & _ & -> & _)]);
      destruct H1 as [[H1 _]|(t & H1 & _)].
    + rewrite scalar_name_letter in H1. discriminate.
    + eapply scalar_not_top; eauto.
    + rewrite elem_name_letter in H1. discriminate.
    + eapply elem_not_top; eauto.
  - exfalso. apply core_methods_shape in H2. apply attr_methods_shape in H1.
    destruct H1 as (a & s & _ & _ & [(p & -> & _)|(p & kd & _ & -> & _)]);
      destruct H2 as [[H2 _]|(t & H2 & _)].
    + rewrite scalar_name_letter in H2. discriminate.
    + eapply scalar_not_top; eauto.
    + rewrite elem_name_letter in H2. discriminate.
    + eapply elem_not_top; eauto.
  - apply attr_methods_shape in H1, H2.
    destruct H1 as (a & s & Hin1 & _ & [(p & -> & ->)|(p & kd & Ht & -> & ->)]);
      destruct H2 as (b & s' & Hin2 & _ & [(q & E & ->)|(q & kd' & Ht' & E & ->)]).
    + apply sprefix_inj in E. destruct E; subst. reflexivity.
    + exfalso. apply scalar_elem_eq in E. subst.
      apply (U1 _ _ Hin2 (is_coll_TColl _ _ Ht')). apply in_map_iff. exists (a_item s', s). auto.
    + exfalso. symmetry in E. apply scalar_elem_eq in E. subst.
      apply (U1 _ _ Hin1 (is_coll_TColl _ _ Ht)). apply in_map_iff. exists (a_item s, s'). auto.
    + apply eprefix_inj in E. destruct E as [-> E].
      assert ((a, s) = (b, s')) as Hs by (eapply U2; eauto using is_coll_TColl).
      inversion Hs; subst. congruence.
Qed.

Section Results.
  Variable singular : name -> option name.

  Lemma decorate_follows c k d :
    decorate singular c k = Ok d ->
    existsb is_private (map fst (dattrs c)) = false /\
    follows (map fst (attrs1 singular c k)) [] (attrs1 singular c k) (d_attrs d) /\
    map fst (d_attrs d) = map fst (attrs1 singular c k).
  Proof.
    intro H. apply decorate_with_inv in H. destruct H as (a2 & Hp & _ & Hr & Ha & _). subst a2.
    split; auto. split; [now apply resolve_follows|now apply resolve_keys in Hr].
  Qed.

  Lemma decorate_unambiguous c k d : decorate singular c k = Ok d -> unambiguous (d_attrs d).
  Proof.
    intro H. destruct (decorate_follows _ _ _ H) as (_ & F & K). split.
    - intros a s Hin Hc. rewrite K. exact (proj1 (follows_avoid _ _ _ _ F _ _ Hin Hc)).
    - eapply follows_inj; eauto.
  Qed.

  (* ---- C16_no_shadowing *)
  Theorem no_shadowing c k d n g1 g2 :
    decorate singular c k = Ok d ->
    In (n, g1) (registrations c (d_attrs d)) -> In (n, g2) (registrations c (d_attrs d)) -> g1 = g2.
  Proof. intro H. apply registrations_functional. eapply decorate_unambiguous; eauto. Qed.

  Lemma d_attrs_NoDup c k d : decorate singular c k = Ok d -> NoDup (map fst (d_attrs d)).
  Proof. intro H. destruct (decorate_follows _ _ _ H) as (_ & _ & K). rewrite K. apply attrs1_NoDup. Qed.

  (* the attributes of the result that carry helpers are the requested ones *)
  Lemma d_attrs_helpers c k d a s :
    decorate singular c k = Ok d -> In (a, s) (d_attrs d) -> a_helpers s = true ->
    requested c k a /\ a_ty s = attr_type c k a /\ is_private a = false.
  Proof.
    intros H Hin Hh. destruct (decorate_follows _ _ _ H) as (Hp & F & _).
    destruct (follows_pointwise _ _ _ _ F _ _ Hin) as (s0 & Hin0 & Ht & Hh0 & _).
    destruct (attrs1_In _ _ _ _ _ Hin0) as [[-> Hm]|Hf]; [|congruence].
    split; [now apply managed_iff_requested|]. split; [rewrite Ht; reflexivity|].
    eapply managed_not_private; eauto.
  Qed.

  Lemma d_attrs_requested c k d a :
    decorate singular c k = Ok d -> requested c k a ->
    exists s, In (a, s) (d_attrs d) /\ a_helpers s = true /\ a_ty s = attr_type c k a.
  Proof.
    intros H Hr. destruct (decorate_follows _ _ _ H) as (Hp & F & K).
    apply managed_iff_requested in Hr; auto.
    pose proof (attrs1_helpers singular _ _ _ Hr) as Hin1.
    assert (In a (map fst (d_attrs d))) as Hk.
    { rewrite K. apply in_map_iff. exists (a, mk_aspec singular c k a true). auto. }
    apply in_map_iff in Hk. destruct Hk as ([a' s] & E & Hin). simpl in E. subst a'.
    exists s. split; auto.
    destruct (follows_pointwise _ _ _ _ F _ _ Hin) as (s0 & Hin0 & Ht & Hh0 & _).
    assert (s0 = mk_aspec singular c k a true) as ->
      by (eapply NoDup_keys_functional; eauto using attrs1_NoDup).
    split; [rewrite Hh0; reflexivity|rewrite Ht; reflexivity].
  Qed.

  Definition item_of (d : deco) (a : name) : name :=
    match lookup a (d_attrs d) with Some s => a_item s | None => "" end.

  Lemma item_of_In c k d a s :
    decorate singular c k = Ok d -> In (a, s) (d_attrs d) -> item_of d a = a_item s.
  Proof.
    intros H Hin. unfold item_of. erewrite NoDup_keys_lookup; eauto using d_attrs_NoDup.
  Qed.

  (* the class dictionary, name by name *)
  Lemma decorate_dict c k d n :
    decorate singular c k = Ok d -> (n <> "__new__" \/ c_lazy c = false) ->
    let base :=
      if String.eqb n "__dataclass_fields__" || String.eqb n "__spec_class__" then Some EMeta
      else match lookup n (body k) with
           | Some m => Some (if mem n (d_attrs d) && is_decl m then ELifted m else EUser m)
           | None => if String.eqb n "__annotations__" then Some EMeta else None
           end in
    lookup n (d_dict d) =
    match lookup n (rev (registrations c (d_attrs d))) with
    | Some g => match base with
                | Some e => if is_spec_reserved n then Some (EGen g (is_function g)) else Some e
                | None => Some (EGen g (is_function g))
                end
    | None => base
    end.
  Proof.
    intros H Hn. pose proof H as Hinv. apply decorate_with_inv in Hinv.
    destruct Hinv as (a2 & _ & _ & Hres & Ha & _ & Hd). simpl in Hd. subst a2.
    assert (Hk : map fst (d_attrs d) = map fst (attrs1 singular c k)) by (now apply resolve_keys in Hres).
    set (d0 := lift_body (attrs1 singular c k) (body k)) in *.
    set (d1 := if mem "__annotations__" d0 then d0 else dset "__annotations__" EMeta d0) in *.
    set (d2 := dset "__dataclass_fields__" EMeta (dset "__spec_class__" EMeta d1)) in *.
    assert (L0 : lookup n d0 = match lookup n (body k) with
                 | Some m => Some (if mem n (d_attrs d) && is_decl m then ELifted m else EUser m)
                 | None => None end).
    { unfold d0. rewrite lookup_lift_body. rewrite (mem_same_keys (d_attrs d) (attrs1 singular c k)); auto. }
    assert (L1 : lookup n d1 = match lookup n (body k) with
                 | Some m => Some (if mem n (d_attrs d) && is_decl m then ELifted m else EUser m)
                 | None => if String.eqb n "__annotations__" then Some EMeta else None end).
    { unfold d1. destruct (String.eqb_spec n "__annotations__").
      - subst n. unfold mem. rewrite L0. destruct (lookup "__annotations__" (body k)); auto.
        apply lookup_dset_same.
      - destruct (mem "__annotations__" d0).
        + rewrite L0. destruct (lookup n (body k)); auto.
        + rewrite lookup_dset_other by congruence. rewrite L0. destruct (lookup n (body k)); auto. }
    assert (L2 : lookup n d2 =
      if String.eqb n "__dataclass_fields__" || String.eqb n "__spec_class__" then Some EMeta
      else match lookup n (body k) with
           | Some m => Some (if mem n (d_attrs d) && is_decl m then ELifted m else EUser m)
           | None => if String.eqb n "__annotations__" then Some EMeta else None end).
    { unfold d2. rewrite !lookup_dset. rewrite (String.eqb_sym "__dataclass_fields__"), (String.eqb_sym "__spec_class__").
      destruct (String.eqb n "__dataclass_fields__"); simpl; auto.
      destruct (String.eqb n "__spec_class__"); auto. }
    cbv zeta. rewrite <- L2.
    assert (L3 : lookup n (d_dict d) = lookup n (register_methods d2 (method_table (registrations c (d_attrs d))))).
    { rewrite Hd. destruct (c_lazy c); auto. rewrite lookup_dset_other; auto. destruct Hn; congruence. }
    rewrite L3, register_methods_lookup by (unfold method_table; apply fold_dset_NoDup; constructor).
    unfold method_table. rewrite lookup_fold_dset. simpl.
    destruct (lookup n (rev (registrations c (d_attrs d)))) as [g|]; auto.
    unfold mem. destruct (lookup n d2); simpl; auto.
    destruct (is_spec_reserved n); auto.
  Qed.
End Results.

Lemma reserved_underscore n : is_spec_reserved n = true -> first_is_underscore n = true.
Proof.
  unfold is_spec_reserved, first_is_underscore. destruct n as [|a n']; [simpl; auto|].
  change (prefix "__spec_class" (String a n')) with (if ascii_dec "_" a then prefix "_spec_class" n' else false).
  change (prefix "_" (String a n')) with (if ascii_dec "_" a then prefix "" n' else false).
  destruct (ascii_dec "_" a); [|discriminate]. intros _. destruct n'; reflexivity.
Qed.

Lemma top_name_letter t : first_is_underscore (top_name t) = false.
Proof. destruct t; reflexivity. Qed.

Lemma letter_neq n s : first_is_underscore n = false -> first_is_underscore s = true -> n <> s.
Proof. intros H1 H2 E. subst. congruence. Qed.

Lemma scalar_name_in4 p a : In (scalar_name p a) (scalar4 a).
Proof. destruct p; simpl; auto. Qed.
Lemma elem_name_in4 p a : In (elem_name p a) (elem4 a).
Proof. destruct p; simpl; auto. Qed.
Lemma in_scalar4 n a : In n (scalar4 a) -> exists p, n = scalar_name p a.
Proof.
  simpl. intros [H|[H|[H|[H|[]]]]]; subst;
    [exists SWith|exists SUpdate|exists STransform|exists SReset]; reflexivity.
Qed.
Lemma in_elem4 n a : In n (elem4 a) -> exists p, n = elem_name p a.
Proof.
  simpl. intros [H|[H|[H|[H|[]]]]]; subst;
    [exists EWith|exists EUpdate|exists ETransform|exists EWithout]; reflexivity.
Qed.
Lemma in_top3 n : In n top3 <-> exists t, n = top_name t.
Proof.
  split.
  - simpl. intros [H|[H|[H|[]]]]; subst; [exists TUpdate|exists TTransform|exists TReset]; reflexivity.
  - intros [t ->]. destruct t; simpl; auto.
Qed.

Section Theorems.
  Variable singular : name -> option name.

  Lemma helper_reg_letter c attrs n g :
    In (n, g) (registrations c attrs) -> helper_gen g = true -> first_is_underscore n = false.
  Proof.
    unfold registrations. rewrite in_app_iff. intros [H|H] Hg.
    - apply core_methods_shape in H. destruct H as [[_ H]|(t & -> & _)]; [congruence|apply top_name_letter].
    - apply attr_methods_shape in H.
      destruct H as (a & s & _ & _ & [(p & -> & _)|(p & kd & _ & -> & _)]);
        [apply scalar_name_letter|apply elem_name_letter].
  Qed.

  Lemma top_registered c attrs t : In (top_name t, GTop t) (registrations c attrs).
  Proof.
    unfold registrations, core_methods. rewrite !in_app_iff. left. do 4 right.
    apply in_map_iff. exists t. split; auto. destruct t; simpl; auto.
  Qed.

  Lemma lookup_rev_regs c k d n g :
    decorate singular c k = Ok d -> In (n, g) (registrations c (d_attrs d)) ->
    lookup n (rev (registrations c (d_attrs d))) = Some g.
  Proof.
    intros H Hin. destruct (lookup n (rev (registrations c (d_attrs d)))) eqn:E.
    - apply lookup_In in E. apply in_rev in E. f_equal. eapply no_shadowing; eauto.
    - apply lookup_None_not_In in E. exfalso. apply E. apply in_map_iff. exists (n, g).
      split; auto. now apply in_rev in Hin.
  Qed.

  Lemma decorate_lazy_new c k d :
    decorate singular c k = Ok d -> c_lazy c = true ->
    lookup "__new__" (d_dict d) = Some (EGen GNewHook true).
  Proof.
    intros H Lz. apply decorate_with_inv in H. destruct H as (a2 & _ & _ & _ & _ & _ & Hd). simpl in Hd.
    rewrite Hd, Lz. apply lookup_dset_same.
  Qed.

  (* a generated entry is the lazy __new__ hook or one of the registrations *)
  Lemma dict_gen_from_regs c k d n g b :
    decorate singular c k = Ok d -> lookup n (d_dict d) = Some (EGen g b) ->
    (g = GNewHook) \/
    (In (n, g) (registrations c (d_attrs d)) /\ b = is_function g /\
     (lookup n (body k) = None \/ is_spec_reserved n = true)).
  Proof.
    intros H L.
    assert (Hcase : (n = "__new__" /\ c_lazy c = true) \/ (n <> "__new__" \/ c_lazy c = false)).
    { destruct (String.eqb_spec n "__new__"); destruct (c_lazy c); auto. }
    destruct Hcase as [[-> Lz]|Hn].
    - rewrite (decorate_lazy_new _ _ _ H Lz) in L. inversion L. auto.
    - rewrite (decorate_dict singular c k d n H Hn) in L. cbv zeta in L.
      destruct (lookup n (rev (registrations c (d_attrs d)))) as [g'|] eqn:E.
      + apply lookup_In in E. apply in_rev in E.
        destruct (String.eqb n "__dataclass_fields__" || String.eqb n "__spec_class__").
        * destruct (is_spec_reserved n) eqn:R; inversion L; subst. right. auto.
        * destruct (lookup n (body k)) eqn:Lb.
          -- destruct (is_spec_reserved n) eqn:R.
             ++ inversion L; subst. right. auto.
             ++ destruct (mem n (d_attrs d) && is_decl m); discriminate.
          -- destruct (String.eqb n "__annotations__").
             ++ destruct (is_spec_reserved n) eqn:R; inversion L; subst. right. auto.
             ++ inversion L; subst. right. auto.
      + destruct (String.eqb n "__dataclass_fields__" || String.eqb n "__spec_class__"); [discriminate|].
        destruct (lookup n (body k)).
        * destruct (mem n (d_attrs d) && is_decl m); discriminate.
        * destruct (String.eqb n "__annotations__"); discriminate.
  Qed.

  (* a registration whose name the body does not occupy is in the dictionary *)
  Lemma reg_in_dict c k d n g :
    decorate singular c k = Ok d -> In (n, g) (registrations c (d_attrs d)) ->
    first_is_underscore n = false -> lookup n (body k) = None ->
    lookup n (d_dict d) = Some (EGen g (is_function g)).
  Proof.
    intros H Hin Hl Hb.
    assert (Hn : n <> "__new__") by (apply letter_neq; auto).
    rewrite (decorate_dict singular c k d n H (or_introl Hn)). cbv zeta.
    rewrite (lookup_rev_regs _ _ _ _ _ H Hin), Hb.
    assert (String.eqb n "__dataclass_fields__" = false) as -> by (apply String.eqb_neq, letter_neq; auto).
    assert (String.eqb n "__spec_class__" = false) as -> by (apply String.eqb_neq, letter_neq; auto).
    assert (String.eqb n "__annotations__" = false) as -> by (apply String.eqb_neq, letter_neq; auto).
    reflexivity.
  Qed.

  (* ---- C16_exact_helper_set *)
  Theorem exact_helper_set c k d n :
    decorate singular c k = Ok d ->
    (is_helper_entry (lookup n (d_dict d)) <->
     expected_helper c k (item_of d) n /\ lookup n (body k) = None).
  Proof.
    intro H. split.
    - intros (g & b & L & Hg).
      destruct (dict_gen_from_regs _ _ _ _ _ _ H L) as [->|(Hin & _ & Hb)]; [discriminate|].
      pose proof (helper_reg_letter _ _ _ _ Hin Hg) as Hl.
      destruct Hb as [Hb|Hb]; [|apply reserved_underscore in Hb; congruence].
      split; auto.
      unfold registrations in Hin. apply in_app_iff in Hin. destruct Hin as [Hin|Hin].
      + apply core_methods_shape in Hin. destruct Hin as [[Hu _]|(t & -> & _)]; [congruence|].
        left. apply in_top3. eauto.
      + apply attr_methods_shape in Hin.
        destruct Hin as (a & s & Hin & Hh & [(p & -> & _)|(p & kd & Ht & -> & _)]);
          destruct (d_attrs_helpers singular _ _ _ _ _ H Hin Hh) as (Hr & Hty & _).
        * right. left. exists a. split; auto. apply scalar_name_in4.
        * right. right. exists a, kd. split; auto. split; [unfold declared; congruence|].
          rewrite (item_of_In singular _ _ _ _ _ H Hin). apply elem_name_in4.
    - intros [He Hb].
      assert (exists g, In (n, g) (registrations c (d_attrs d)) /\ helper_gen g = true) as (g & Hin & Hg).
      { destruct He as [He|[(a & Hr & He)|(a & kd & Hr & Hd & He)]].
        - apply in_top3 in He. destruct He as [t ->]. exists (GTop t). split; auto using top_registered.
        - apply in_scalar4 in He. destruct He as [p ->].
          destruct (d_attrs_requested singular _ _ _ _ H Hr) as (s & Hin & Hh & _).
          exists (GScalar p a). split; auto. unfold registrations. apply in_app_iff. right.
          eapply attr_methods_scalar; eauto.
        - apply in_elem4 in He. destruct He as [p ->].
          destruct (d_attrs_requested singular _ _ _ _ H Hr) as (s & Hin & Hh & Hty).
          rewrite (item_of_In singular _ _ _ _ _ H Hin).
          exists (GElem p a kd (a_item s)). split; auto. unfold registrations. apply in_app_iff. right.
          eapply attr_methods_elem; eauto. unfold declared in Hd. congruence. }
      exists g, (is_function g). split; auto.
      eapply reg_in_dict; eauto. eapply helper_reg_letter; eauto.
  Qed.

  (* ---- element helpers are named by the documented rule *)
  Definition colls_of (d : deco) : list name :=
    map fst (filter (fun p => is_coll (snd p)) (d_attrs d)).

  Lemma colls_of_In d a : In a (colls_of d) <-> exists s, In (a, s) (d_attrs d) /\ is_coll s = true.
  Proof.
    unfold colls_of. rewrite in_map_iff. split.
    - intros ([a' s] & E & Hin). simpl in E. subst. apply filter_In in Hin. eauto.
    - intros (s & Hin & Hc). exists (a, s). split; auto. apply filter_In. auto.
  Qed.

  Lemma attrs1_item c k a s : In (a, s) (attrs1 singular c k) -> a_item s = get_singular_form singular a.
  Proof.
    unfold attrs1. destruct (active (c_key c)) as [key|].
    - destruct (mem key (attrs0 singular c k)).
      + intro H. apply attrs0_In in H. destruct H as [-> _]. reflexivity.
      + rewrite in_app_iff. intros [H|[H|[]]].
        * apply attrs0_In in H. destruct H as [-> _]. reflexivity.
        * inversion H; subst. reflexivity.
    - intro H. apply attrs0_In in H. destruct H as [-> _]. reflexivity.
  Qed.

  Theorem item_names_follow_rule c k d :
    decorate singular c k = Ok d ->
    item_rule singular (map fst (d_attrs d)) (colls_of d) (item_of d).
  Proof.
    intro H. destruct (decorate_follows singular _ _ _ H) as (_ & F & K).
    unfold item_rule. repeat split.
    - intros a Ha. apply colls_of_In in Ha. destruct Ha as (s & Hin & Hc).
      rewrite (item_of_In singular _ _ _ _ _ H Hin).
      destruct (follows_pointwise _ _ _ _ F _ _ Hin) as (s0 & Hin0 & _ & _ & [E|E]); auto.
      left. rewrite E. eapply attrs1_item; eauto.
    - intros a Ha. apply colls_of_In in Ha. destruct Ha as (s & Hin & Hc).
      rewrite (item_of_In singular _ _ _ _ _ H Hin). rewrite K.
      exact (proj1 (follows_avoid _ _ _ _ F _ _ Hin Hc)).
    - intros a b Ha Hb E. apply colls_of_In in Ha, Hb.
      destruct Ha as (s1 & Hin1 & Hc1). destruct Hb as (s2 & Hin2 & Hc2).
      rewrite (item_of_In singular _ _ _ _ _ H Hin1), (item_of_In singular _ _ _ _ _ H Hin2) in E.
      assert ((a, s1) = (b, s2)) as Hs by (eapply follows_inj; eauto). congruence.
    - intros a Ha Hne. apply colls_of_In in Ha. destruct Ha as (s & Hin & Hc).
      rewrite (item_of_In singular _ _ _ _ _ H Hin) in Hne.
      destruct (follows_cause _ _ _ _ F _ _ Hin Hc) as (s0 & Hin0 & Hcase).
      rewrite (attrs1_item _ _ _ _ Hin0) in Hcase.
      destruct Hcase as [E|(_ & _ & [Hc1|[[]|(b & sb & Hb & Cb & Eb)]])]; [congruence| |].
      + left. rewrite K. exact Hc1.
      + right. exists b. split; [apply colls_of_In; eauto|]. split.
        * intro; subst b.
          assert (sb = s) by (eapply NoDup_keys_functional; eauto using d_attrs_NoDup). subst. congruence.
        * rewrite (item_of_In singular _ _ _ _ _ H Hb). exact Eb.
  Qed.

  (* ---- C16_private_unmanaged *)
  Theorem private_unmanaged c k d :
    decorate singular c k = Ok d ->
    (forall a s, In (a, s) (d_attrs d) -> a_helpers s = true -> is_private a = false) /\
    (forall n g b a, lookup n (d_dict d) = Some (EGen g b) -> gen_attr g = Some a -> is_private a = false).
  Proof.
    intro H. split.
    - intros a s Hin Hh. eapply d_attrs_helpers; eauto.
    - intros n g b a L Ha.
      destruct (dict_gen_from_regs _ _ _ _ _ _ H L) as [->|(Hin & _ & _)]; [discriminate|].
      unfold registrations in Hin. apply in_app_iff in Hin. destruct Hin as [Hin|Hin].
      + apply core_methods_shape in Hin. destruct Hin as [[_ Hg]|(t & _ & ->)]; [|discriminate].
        destruct g; simpl in *; try discriminate.
      + apply attr_methods_shape in Hin.
        destruct Hin as (a' & s & Hin & Hh & [(p & _ & ->)|(p & kd & _ & _ & ->)]);
          simpl in Ha; inversion Ha; subst; eapply d_attrs_helpers; eauto.
  Qed.
End Theorems.

Section Present.
  Variable singular : name -> option name.

  Lemma use_keeps_none d n0 n : owns d -> lookup n d = None -> lookup n (use d n0) = None.
  Proof.
    intros Ho L. unfold use. destruct (lookup n0 d) as [[| | | |g [|]]|] eqn:E; auto.
    rewrite (Ho _ _ E). rewrite lookup_dset_other; auto. intro; subst. congruence.
  Qed.

  Lemma use_all_keeps_none ns d n : owns d -> lookup n d = None -> lookup n (use_all d ns) = None.
  Proof.
    unfold use_all. revert d. induction ns as [|n0 t IH]; simpl; intros d Ho L; auto.
    apply IH; auto using use_owns, use_keeps_none.
  Qed.

  Lemma core_registered c cr :
    core_enabled c cr = true -> In (core_name cr, GCore cr) (core_methods c).
  Proof.
    unfold core_methods. rewrite !in_app_iff. destruct cr; simpl; intro E; try rewrite E; simpl; tauto.
  Qed.

  Lemma core_backup_registered c cr :
    In cr [CInit; CRepr; CEq] -> In (core_backup_name cr, GCore cr) (core_methods c).
  Proof.
    unfold core_methods. rewrite !in_app_iff. intros [<-|[<-|[<-|[]]]]; simpl; tauto.
  Qed.

  Lemma core_disabled_absent c attrs cr :
    core_enabled c cr = false -> ~ In (core_name cr) (map fst (registrations c attrs)).
  Proof.
    intros E Hin. apply in_map_iff in Hin. destruct Hin as ([n g] & En & Hin). simpl in En. subst n.
    unfold registrations in Hin. apply in_app_iff in Hin. destruct Hin as [Hin|Hin].
    - unfold core_methods in Hin.
      destruct cr; simpl in E; try discriminate; rewrite E in Hin;
        destruct (c_init c), (c_repr c), (c_eq c); simpl in Hin;
        repeat (destruct Hin as [Hin|Hin]; [discriminate|]); destruct Hin.
    - apply attr_methods_shape in Hin.
      destruct Hin as (a & s & _ & _ & [(p & En & _)|(p & kd & _ & En & _)]).
      + pose proof (scalar_name_letter p a) as Hl. rewrite <- En in Hl. destruct cr; discriminate.
      + pose proof (elem_name_letter p (a_item s)) as Hl. rewrite <- En in Hl. destruct cr; discriminate.
  Qed.

  Lemma after_use c k d n e uses :
    decorate singular c k = Ok d -> n <> "__new__" ->
    lookup n (d_dict d) = Some e -> (forall g, e <> EGen g false) ->
    lookup n (use_all (instantiate c k (d_dict d)) uses) = Some e.
  Proof.
    intros H Hn L He.
    assert (Ho : owns (d_dict d)) by (eapply decorate_with_owns; eauto).
    apply use_all_keeps; auto using instantiate_owns.
    unfold instantiate. destruct (c_lazy c); auto.
    destruct (lookup "__new__" (body k)); rewrite lookup_dset_other; auto.
  Qed.

  (* ---- C16_spec_names_present *)
  Theorem spec_names_present c k d uses :
    decorate singular c k = Ok d ->
    let D := use_all (instantiate c k (d_dict d)) uses in
    (forall cr, In cr [CInit; CRepr; CEq] ->
       lookup (core_backup_name cr) D = Some (EGen (GCore cr) true)) /\
    (forall cr, lookup (core_name cr) (body k) = None ->
       lookup (core_name cr) D = if core_enabled c cr then Some (EGen (GCore cr) true) else None).
  Proof.
    intros H D. split.
    - intros cr Hcr.
      assert (Hin : In (core_backup_name cr, GCore cr) (registrations c (d_attrs d))).
      { unfold registrations. apply in_app_iff. left. now apply core_backup_registered. }
      assert (Hn : core_backup_name cr <> "__new__") by (destruct cr; discriminate).
      apply after_use; auto; [|intros g Hc; discriminate].
      rewrite (decorate_dict singular c k d _ H (or_introl Hn)). cbv zeta.
      rewrite (lookup_rev_regs singular _ _ _ _ _ H Hin).
      destruct Hcr as [<-|[<-|[<-|[]]]]; simpl;
        match goal with |- context [lookup ?n (body k)] => destruct (lookup n (body k)) end; reflexivity.
    - intros cr Hb. assert (Hn : core_name cr <> "__new__") by (destruct cr; discriminate).
      assert (Ho : owns (d_dict d)) by (eapply decorate_with_owns; eauto).
      destruct (core_enabled c cr) eqn:E.
      + assert (Hin : In (core_name cr, GCore cr) (registrations c (d_attrs d))).
        { unfold registrations. apply in_app_iff. left. now apply core_registered. }
        apply after_use; auto; [|intros g Hc; discriminate].
        rewrite (decorate_dict singular c k d _ H (or_introl Hn)). cbv zeta.
        rewrite (lookup_rev_regs singular _ _ _ _ _ H Hin), Hb.
        destruct cr; reflexivity.
      + apply use_all_keeps_none; auto using instantiate_owns.
        assert (L : lookup (core_name cr) (d_dict d) = None).
        { rewrite (decorate_dict singular c k d _ H (or_introl Hn)). cbv zeta.
          assert (lookup (core_name cr) (rev (registrations c (d_attrs d))) = None) as ->.
          { apply lookup_None_not_In. rewrite map_rev. rewrite <- in_rev. now apply core_disabled_absent. }
          rewrite Hb. destruct cr; reflexivity. }
        unfold instantiate. destruct (c_lazy c); auto.
        destruct (lookup "__new__" (body k)); rewrite lookup_dset_other; auto.
  Qed.
End Present.

(* ---- a contradictory constructor makes decoration raise, and ValueError is raised only for
   a private request or such a constructor *)
Section Raise.
  Variable singular : name -> option name.

  Lemma ctor_clash_spec c : ctor_clash c = contradictory_constructor c.
  Proof. reflexivity. Qed.

  Theorem contradictory_constructor_raises c k :
    contradictory_constructor c = true -> exists e, decorate singular c k = Err e.
  Proof.
    rewrite <- ctor_clash_spec. intro H. unfold decorate, decorate_with.
    destruct (existsb is_private (map fst (dattrs c))); [eauto|].
    destruct (resolve _ _ _); [rewrite H|]; eauto.
  Qed.

  Lemma resolve_err names taken todo e : resolve names taken todo = Err e -> e = RuntimeErr.
  Proof.
    revert taken. induction todo as [|[a s] t IH]; simpl; intros taken; [discriminate|].
    destruct (is_coll s).
    - destruct (memb (a_item s) names || memb (a_item s) taken).
      + destruct (negb (memb (item_fallback a) names) && negb (memb (item_fallback a) taken)).
        * destruct (resolve names (item_fallback a :: taken) t) eqn:E; [discriminate|].
          intro H; inversion H; subst; eauto.
        * intro H; inversion H; auto.
      + destruct (resolve names (a_item s :: taken) t) eqn:E; [discriminate|].
        intro H; inversion H; subst; eauto.
    - destruct (resolve names taken t) eqn:E; [discriminate|]. intro H; inversion H; subst; eauto.
  Qed.

  Theorem value_error_only_when_justified c k :
    decorate singular c k = Err ValueErr ->
    existsb is_private (map fst (dattrs c)) = true \/ contradictory_constructor c = true.
  Proof.
    rewrite <- ctor_clash_spec. unfold decorate, decorate_with.
    destruct (existsb is_private (map fst (dattrs c))); [auto|].
    destruct (resolve _ _ _) eqn:E.
    - destruct (ctor_clash c); [auto|discriminate].
    - intro H. inversion H; subst. apply resolve_err in E. discriminate.
  Qed.
End Raise.
