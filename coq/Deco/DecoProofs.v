(* Proofs for C16 (Deco/Decorate.v against Deco/DecoSpec.v). *)
From Coq Require Import String List Bool ZArith Ascii Lia.
From SC Require Import Base.Res Deco.Naming Deco.Decorate Deco.DecoSpec.
Import ListNotations.
Open Scope string_scope.

(* ------------------------------------------------------------------ dicts *)
Lemma eqb_sym_false a b : String.eqb a b = false -> String.eqb b a = false.
Proof. rewrite !String.eqb_neq. congruence. Qed.

Lemma lookup_dset_same {A} n (v : A) l : lookup n (dset n v l) = Some v.
Proof.
  induction l as [|[k w] t IH]; simpl.
  - now rewrite String.eqb_refl.
  - destruct (String.eqb k n) eqn:E; simpl; rewrite E; auto.
Qed.

Lemma lookup_dset_other {A} n n' (v : A) l : n <> n' -> lookup n' (dset n v l) = lookup n' l.
Proof.
  intros Hne. induction l as [|[k w] t IH]; simpl.
  - destruct (String.eqb_spec n n'); [contradiction|reflexivity].
  - destruct (String.eqb_spec k n); simpl.
    + subst. destruct (String.eqb_spec n n'); [contradiction|reflexivity].
    + destruct (String.eqb_spec k n'); auto.
Qed.

Lemma lookup_dset {A} n n' (v : A) l :
  lookup n' (dset n v l) = if String.eqb n n' then Some v else lookup n' l.
Proof.
  destruct (String.eqb_spec n n').
  - subst. apply lookup_dset_same.
  - now apply lookup_dset_other.
Qed.

Lemma mem_dset {A} n n' (v : A) l : mem n' (dset n v l) = String.eqb n n' || mem n' l.
Proof. unfold mem. rewrite lookup_dset. destruct (String.eqb n n'); reflexivity. Qed.

Lemma lookup_In {A} n (v : A) l : lookup n l = Some v -> In (n, v) l.
Proof.
  induction l as [|[k w] t IH]; simpl; [discriminate|].
  destruct (String.eqb_spec k n); intro H.
  - inversion H; subst; auto.
  - auto.
Qed.

Lemma mem_In_fst {A} n (l : list (name * A)) : mem n l = true <-> In n (map fst l).
Proof.
  unfold mem. induction l as [|[k w] t IH]; simpl.
  - split; [discriminate|tauto].
  - destruct (String.eqb_spec k n).
    + subst. split; auto.
    + rewrite IH. split; [auto|]. intros [H|H]; [contradiction|auto].
Qed.

Lemma mem_false_not_In {A} n (l : list (name * A)) : mem n l = false <-> ~ In n (map fst l).
Proof. rewrite <- mem_In_fst. destruct (mem n l); split; congruence. Qed.

Lemma memb_In n l : memb n l = true <-> In n l.
Proof.
  induction l as [|k t IH]; simpl.
  - split; [discriminate|tauto].
  - rewrite orb_true_iff, IH, String.eqb_eq. tauto.
Qed.

Lemma memb_false n l : memb n l = false <-> ~ In n l.
Proof. rewrite <- memb_In. destruct (memb n l); split; congruence. Qed.

Lemma lookup_app {A} n (l1 l2 : list (name * A)) :
  lookup n (l1 ++ l2) = match lookup n l1 with Some v => Some v | None => lookup n l2 end.
Proof.
  induction l1 as [|[k w] t IH]; simpl; auto.
  destruct (String.eqb k n); auto.
Qed.

Lemma lookup_None_not_In {A} n (l : list (name * A)) : lookup n l = None <-> ~ In n (map fst l).
Proof.
  rewrite <- mem_false_not_In. unfold mem. destruct (lookup n l); split; congruence.
Qed.

Lemma map_fst_dset {A} n (v : A) l :
  map fst (dset n v l) = if mem n l then map fst l else (map fst l ++ [n])%list.
Proof.
  unfold mem. induction l as [|[k w] t IH]; simpl; auto.
  destruct (String.eqb_spec k n); simpl.
  - reflexivity.
  - rewrite IH. destruct (lookup n t); reflexivity.
Qed.

Lemma NoDup_snoc {A} (x : A) l : NoDup l -> ~ In x l -> NoDup (l ++ [x]).
Proof.
  induction l as [|y t IH]; simpl; intros Hn Hx.
  - constructor; auto.
  - inversion Hn; subst. constructor.
    + rewrite in_app_iff. simpl. intros [H|[H|[]]]; [auto|subst; auto].
    + apply IH; auto.
Qed.

Lemma NoDup_dset {A} n (v : A) l : NoDup (map fst l) -> NoDup (map fst (dset n v l)).
Proof.
  intro H. rewrite map_fst_dset. destruct (mem n l) eqn:E; auto.
  apply mem_false_not_In in E. now apply NoDup_snoc.
Qed.

Lemma In_map_fst_dset {A} n (v : A) l x : In x (map fst (dset n v l)) <-> x = n \/ In x (map fst l).
Proof.
  rewrite map_fst_dset. destruct (mem n l) eqn:E.
  - apply mem_In_fst in E. split; [auto|]. intros [->|H]; auto.
  - rewrite in_app_iff. simpl. split; [intros [H|[H|[]]]; auto|intros [->|H]; auto].
Qed.

(* fold of dset over a list of keys *)
Lemma fold_dset_keys {A B} (f : B -> name) (g : B -> A) xs acc x :
  In x (map fst (fold_left (fun acc b => dset (f b) (g b) acc) xs acc)) <->
  In x (map f xs) \/ In x (map fst acc).
Proof.
  revert acc. induction xs as [|b t IH]; simpl; intro acc.
  - tauto.
  - rewrite IH, In_map_fst_dset. split; intros; intuition (subst; auto).
Qed.

Lemma fold_dset_NoDup {A B} (f : B -> name) (g : B -> A) xs acc :
  NoDup (map fst acc) -> NoDup (map fst (fold_left (fun acc b => dset (f b) (g b) acc) xs acc)).
Proof.
  revert acc. induction xs as [|b t IH]; simpl; intros acc H; auto.
  apply IH. now apply NoDup_dset.
Qed.

Lemma In_dset {A} n (v : A) l x w : In (x, w) (dset n v l) -> (x = n /\ w = v) \/ In (x, w) l.
Proof.
  induction l as [|[k u] t IH]; simpl.
  - intros [H|[]]. inversion H; auto.
  - destruct (String.eqb_spec k n); simpl.
    + intros [H|H]; [inversion H; subst; auto|auto].
    + intros [H|H]; [auto|]. destruct (IH H); auto.
Qed.

Lemma In_fold_dset {A} (xs : list (name * A)) acc x w :
  In (x, w) (fold_left (fun acc p => dset (fst p) (snd p) acc) xs acc) -> In (x, w) xs \/ In (x, w) acc.
Proof.
  revert acc. induction xs as [|[n v] t IH]; simpl; intro acc; auto.
  intro H. destruct (IH _ H) as [H1|H1]; auto.
  apply In_dset in H1. destruct H1 as [[-> ->]|H1]; auto.
Qed.

(* ------------------------------------------------------------------ user members are kept *)
Section Kept.
  Variable singular : name -> option name.

  Lemma register_method_keeps d p n e :
    lookup n d = Some e -> is_spec_reserved n = false ->
    lookup n (register_method d p) = Some e.
  Proof.
    destruct p as [n' g]. unfold register_method. intros H R.
    destruct (String.eqb_spec n' n).
    - subst. unfold mem. rewrite H, R. simpl. exact H.
    - destruct (mem n' d && negb (is_spec_reserved n')); auto.
      rewrite lookup_dset_other; auto.
  Qed.

  Lemma register_methods_keeps ms d n e :
    lookup n d = Some e -> is_spec_reserved n = false ->
    lookup n (register_methods d ms) = Some e.
  Proof.
    unfold register_methods. revert d. induction ms as [|p t IH]; simpl; intros d H R; auto.
    apply IH; auto. now apply register_method_keeps.
  Qed.

  Lemma lookup_lift_body attrs b n :
    lookup n (lift_body attrs b) =
    match lookup n b with
    | Some m => Some (if mem n attrs && is_decl m then ELifted m else EUser m)
    | None => None
    end.
  Proof.
    induction b as [|[k m] t IH]; simpl; auto.
    destruct (String.eqb_spec k n); subst; auto.
  Qed.

  (* descriptors sit under the name they will write *)
  Definition owns (d : list (name * entry)) : Prop :=
    forall n g, lookup n d = Some (EGen g false) -> gen_name g = n.

  Lemma owns_dset_built d n e :
    owns d -> (forall g, e <> EGen g false) -> owns (dset n e d).
  Proof.
    intros H He n' g. rewrite lookup_dset. destruct (String.eqb_spec n n').
    - intro E. inversion E. subst. exfalso. eapply He; eauto.
    - apply H.
  Qed.

  Lemma owns_register_method d n g :
    owns d -> (is_function g = false -> gen_name g = n) -> owns (register_method d (n, g)).
  Proof.
    intros H Hg. unfold register_method.
    destruct (mem n d && negb (is_spec_reserved n)); auto.
    intros n' g'. rewrite lookup_dset. destruct (String.eqb_spec n n').
    - intro E. inversion E; subst. auto.
    - apply H.
  Qed.

  Lemma owns_register_methods ms d :
    owns d -> Forall (fun p => is_function (snd p) = false -> gen_name (snd p) = fst p) ms ->
    owns (register_methods d ms).
  Proof.
    unfold register_methods. revert d. induction ms as [|[n g] t IH]; simpl; intros d H F; auto.
    inversion F; subst. apply IH; auto. apply owns_register_method; auto.
  Qed.

  Ltac named_tac :=
    repeat (apply Forall_cons; [simpl; first [left; reflexivity | right; reflexivity]|]); try apply Forall_nil.

  Lemma registrations_named c attrs :
    Forall (fun p => gen_name (snd p) = fst p \/ is_function (snd p) = true) (registrations c attrs).
  Proof.
    unfold registrations. apply Forall_app. split.
    - unfold core_methods. repeat (apply Forall_app; split).
      + destruct (c_init c); named_tac.
      + destruct (c_repr c); named_tac.
      + destruct (c_eq c); named_tac.
      + named_tac.
      + simpl. named_tac.
    - apply Forall_flat_map. apply Forall_forall. intros [a s] _. unfold attr_methods.
      destruct (a_helpers s); [|constructor].
      apply Forall_app. split.
      + simpl. named_tac.
      + destruct (a_ty s); [constructor|]. simpl. named_tac.
  Qed.

  Lemma method_table_named regs :
    Forall (fun p => gen_name (snd p) = fst p \/ is_function (snd p) = true) regs ->
    Forall (fun p => is_function (snd p) = false -> gen_name (snd p) = fst p) (method_table regs).
  Proof.
    intro F. apply Forall_forall. intros [n g] Hin. unfold method_table in Hin.
    apply In_fold_dset in Hin. destruct Hin as [Hin|[]].
    rewrite Forall_forall in F. specialize (F _ Hin). simpl in *.
    intro Hf. destruct F as [F|F]; [auto|congruence].
  Qed.

  Lemma use_owns d n : owns d -> owns (use d n).
  Proof.
    intro H. unfold use. destruct (lookup n d) as [[| | | |g [|]]|] eqn:E; auto.
    apply owns_dset_built; auto. intros g' Hc. discriminate.
  Qed.

  Lemma use_keeps d n0 n e :
    owns d -> lookup n d = Some e -> (forall g, e <> EGen g false) -> lookup n (use d n0) = Some e.
  Proof.
    intros H L He. unfold use. destruct (lookup n0 d) as [[| | | |g [|]]|] eqn:E; auto.
    rewrite (H _ _ E). rewrite lookup_dset_other; auto.
    intro; subst. rewrite E in L. inversion L. subst. eapply He; eauto.
  Qed.

  Lemma use_all_keeps ns d n e :
    owns d -> lookup n d = Some e -> (forall g, e <> EGen g false) ->
    lookup n (use_all d ns) = Some e /\ owns (use_all d ns).
  Proof.
    unfold use_all. revert d. induction ns as [|n0 t IH]; simpl; intros d H L He; auto.
    apply IH; auto using use_owns, use_keeps.
  Qed.

  Lemma use_all_owns ns d : owns d -> owns (use_all d ns).
  Proof.
    unfold use_all. revert d. induction ns as [|n0 t IH]; simpl; intros d H; auto using use_owns.
  Qed.

  (* the dictionary produced by decorate, step by step *)
  Lemma decorate_with_inv resolver c k d :
    decorate_with singular resolver c k = Ok d ->
    exists a2,
      existsb is_private (map fst (dattrs c)) = false /\
      resolver (map fst (attrs1 singular c k)) (attrs1 singular c k) = Ok a2 /\
      d_attrs d = a2 /\ d_annots d = annots_after k a2 /\
      let d0 := lift_body (attrs1 singular c k) (body k) in
      let d1 := if mem "__annotations__" d0 then d0 else dset "__annotations__" EMeta d0 in
      let d2 := dset "__dataclass_fields__" EMeta (dset "__spec_class__" EMeta d1) in
      let d3 := register_methods d2 (method_table (registrations c a2)) in
      d_dict d = if c_lazy c then dset "__new__" (EGen GNewHook true) d3 else d3.
  Proof.
    unfold decorate_with. destruct (existsb is_private (map fst (dattrs c))); [discriminate|].
    destruct (resolver _ _) as [a2|e]; [|discriminate].
    intro H. inversion H; subst; simpl. exists a2. repeat split; auto.
  Qed.

  Lemma lift_body_owns attrs b : owns (lift_body attrs b).
  Proof.
    intros n g. rewrite lookup_lift_body. destruct (lookup n b); [|discriminate].
    destruct (mem n attrs && is_decl m); discriminate.
  Qed.

  Lemma decorate_with_owns resolver c k d :
    decorate_with singular resolver c k = Ok d -> owns (d_dict d).
  Proof.
    intro H. apply decorate_with_inv in H. destruct H as (a2 & _ & _ & _ & _ & Hd). simpl in Hd.
    rewrite Hd.
    assert (owns (register_methods
      (dset "__dataclass_fields__" EMeta (dset "__spec_class__" EMeta
        (if mem "__annotations__" (lift_body (attrs1 singular c k) (body k))
         then lift_body (attrs1 singular c k) (body k)
         else dset "__annotations__" EMeta (lift_body (attrs1 singular c k) (body k)))))
      (method_table (registrations c a2)))) as Ho.
    { apply owns_register_methods.
      - repeat apply owns_dset_built; try (intros g Hc; discriminate).
        destruct (mem _ _); [apply lift_body_owns|].
        apply owns_dset_built; [apply lift_body_owns|intros g Hc; discriminate].
      - apply method_table_named, registrations_named. }
    destruct (c_lazy c); auto.
    apply owns_dset_built; auto. intros g Hc; discriminate.
  Qed.

  Lemma instantiate_owns c k d : owns d -> owns (instantiate c k d).
  Proof.
    intro H. unfold instantiate. destruct (c_lazy c); auto.
    destruct (lookup "__new__" (body k)); apply owns_dset_built; auto; intros g Hc; discriminate.
  Qed.

  Lemma resolve_keys names taken todo r :
    resolve names taken todo = Ok r -> map fst r = map fst todo.
  Proof.
    revert taken r. induction todo as [|[a s] t IH]; simpl; intros taken r H.
    - inversion H; auto.
    - destruct (is_coll s).
      + destruct (memb (a_item s) names || memb (a_item s) taken).
        * destruct (negb (memb (item_fallback a) names) && negb (memb (item_fallback a) taken)); [|discriminate].
          destruct (resolve names (item_fallback a :: taken) t) eqn:E; [|discriminate].
          inversion H; subst. simpl. f_equal. eauto.
        * destruct (resolve names (a_item s :: taken) t) eqn:E; [|discriminate].
          inversion H; subst. simpl. f_equal. eauto.
      + destruct (resolve names taken t) eqn:E; [|discriminate].
        inversion H; subst. simpl. f_equal. eauto.
  Qed.

  Lemma resolve_old_keys names todo r :
    resolve_old names todo = Ok r -> map fst r = map fst todo.
  Proof.
    revert r. induction todo as [|[a s] t IH]; simpl; intros r H.
    - inversion H; auto.
    - destruct (is_coll s && memb (a_item s) names).
      + destruct (negb (memb (item_fallback a) names)); [|discriminate].
        destruct (resolve_old names t) eqn:E; [|discriminate].
        inversion H; subst. simpl. f_equal. eauto.
      + destruct (resolve_old names t) eqn:E; [|discriminate].
        inversion H; subst. simpl. f_equal. eauto.
  Qed.

  Lemma mem_same_keys {A B} (l1 : list (name * A)) (l2 : list (name * B)) n :
    map fst l1 = map fst l2 -> mem n l1 = mem n l2.
  Proof.
    intro H. destruct (mem n l2) eqn:E.
    - apply mem_In_fst. rewrite H. now apply mem_In_fst.
    - apply mem_false_not_In. rewrite H. now apply mem_false_not_In.
  Qed.

  Definition keeps_keys (resolver : list name -> list (name * aspec) -> res (list (name * aspec))) :=
    forall names todo r, resolver names todo = Ok r -> map fst r = map fst todo.

  (* the entry of a body member right after decoration *)
  Lemma decorate_with_body_entry resolver c k d n m :
    keeps_keys resolver ->
    decorate_with singular resolver c k = Ok d ->
    lookup n (body k) = Some m -> reserved n = false ->
    (n <> "__new__" \/ c_lazy c = false) ->
    lookup n (d_dict d) =
      Some (if mem n (d_attrs d) && is_decl m then ELifted m else EUser m).
  Proof.
    intros HK H L R Hn. apply decorate_with_inv in H.
    destruct H as (a2 & _ & Hres & Ha & _ & Hd). simpl in Hd.
    unfold reserved in R. apply orb_false_iff in R. destruct R as [R1 R2].
    apply String.eqb_neq in R2.
    assert (Hl0 : lookup n (lift_body (attrs1 singular c k) (body k)) =
                  Some (if mem n (attrs1 singular c k) && is_decl m then ELifted m else EUser m)).
    { rewrite lookup_lift_body, L. reflexivity. }
    rewrite (mem_same_keys (attrs1 singular c k) a2) in Hl0 by (symmetry; eapply HK; eauto).
    rewrite <- Ha in Hl0.
    set (e := if mem n (d_attrs d) && is_decl m then ELifted m else EUser m) in *.
    assert (Hl3 : lookup n (register_methods
      (dset "__dataclass_fields__" EMeta (dset "__spec_class__" EMeta
        (if mem "__annotations__" (lift_body (attrs1 singular c k) (body k))
         then lift_body (attrs1 singular c k) (body k)
         else dset "__annotations__" EMeta (lift_body (attrs1 singular c k) (body k)))))
      (method_table (registrations c a2))) = Some e).
    { apply register_methods_keeps; auto.
      rewrite lookup_dset_other by congruence.
      rewrite lookup_dset_other by (intro; subst; discriminate).
      destruct (mem "__annotations__" _) eqn:E; auto.
      rewrite lookup_dset_other; auto.
      intro; subst. unfold mem in E. rewrite Hl0 in E. discriminate. }
    rewrite Hd.
    destruct (c_lazy c); auto.
    rewrite lookup_dset_other; auto. destruct Hn; congruence.
  Qed.

  (* ---- C16_user_members_kept *)
  Theorem user_members_kept c k d n m uses :
    decorate singular c k = Ok d ->
    lookup n (body k) = Some m -> reserved n = false -> is_decl m = false ->
    (n <> "__new__" \/ c_lazy c = false) ->
    kept m (lookup n (d_dict d)) /\
    kept m (lookup n (use_all (d_dict d) uses)) /\
    kept m (lookup n (use_all (instantiate c k (d_dict d)) uses)).
  Proof.
    intros H L R Hd Hn. unfold kept.
    assert (E : lookup n (d_dict d) = Some (EUser m)).
    { erewrite decorate_with_body_entry; eauto.
      - rewrite Hd, andb_false_r. reflexivity.
      - intros names todo r. apply resolve_keys. }
    assert (Ho : owns (d_dict d)) by (eapply decorate_with_owns; eauto).
    split; [exact E|]. split.
    - apply use_all_keeps; auto. intros g Hc; discriminate.
    - apply use_all_keeps; [now apply instantiate_owns| |intros g Hc; discriminate].
      unfold instantiate. destruct (c_lazy c) eqn:Lz; auto.
      destruct Hn as [Hn|Hn]; [|discriminate].
      destruct (lookup "__new__" (body k)); rewrite lookup_dset_other; auto.
  Qed.

  (* declarations (Attr / dataclasses.field) are replaced by their default
     exactly when the attribute gets a specification; otherwise kept *)
  Theorem declarations_lifted_iff_specified c k d n m uses :
    decorate singular c k = Ok d ->
    lookup n (body k) = Some m -> reserved n = false -> is_decl m = true ->
    (n <> "__new__" \/ c_lazy c = false) ->
    let e := if mem n (d_attrs d) then ELifted m else EUser m in
    lookup n (d_dict d) = Some e /\
    lookup n (use_all (instantiate c k (d_dict d)) uses) = Some e.
  Proof.
    intros H L R Hd Hn e.
    assert (E : lookup n (d_dict d) = Some e).
    { erewrite decorate_with_body_entry; eauto.
      - rewrite Hd, andb_true_r. reflexivity.
      - intros names todo r. apply resolve_keys. }
    assert (Ho : owns (d_dict d)) by (eapply decorate_with_owns; eauto).
    split; [exact E|].
    apply use_all_keeps; [now apply instantiate_owns| |subst e; destruct (mem n (d_attrs d)); intros g Hc; discriminate].
    unfold instantiate. destruct (c_lazy c) eqn:Lz; auto.
    destruct Hn as [Hn|Hn]; [|discriminate].
    destruct (lookup "__new__" (body k)); rewrite lookup_dset_other; auto.
  Qed.

  (* a user-written __new__ of a lazily bootstrapped class: after the first
     instantiation the dictionary holds the function the user wrote, without
     its staticmethod wrapper *)
  Theorem user_new_unwrapped c k d m uses :
    decorate singular c k = Ok d -> c_lazy c = true ->
    lookup "__new__" (body k) = Some m ->
    lookup "__new__" (use_all (instantiate c k (d_dict d)) uses) = Some (EUnwrapped m).
  Proof.
    intros H Lz L.
    assert (Ho : owns (d_dict d)) by (eapply decorate_with_owns; eauto).
    apply use_all_keeps; [now apply instantiate_owns| |intros g Hc; discriminate].
    unfold instantiate. rewrite Lz, L. apply lookup_dset_same.
  Qed.
End Kept.

(* ------------------------------------------------------------------ names *)
Lemma sprefix_inj p q a b : scalar_name p a = scalar_name q b -> p = q /\ a = b.
Proof. unfold scalar_name. destruct p, q; simpl; intro H; try discriminate; split; congruence. Qed.

Lemma eprefix_inj p q a b : elem_name p a = elem_name q b -> p = q /\ a = b.
Proof. unfold elem_name. destruct p, q; simpl; intro H; try discriminate; split; congruence. Qed.

Lemma scalar_elem_eq p q a b : scalar_name p a = elem_name q b -> a = b.
Proof. unfold scalar_name, elem_name. destruct p, q; simpl; intro H; try discriminate; congruence. Qed.

Definition first_is_underscore (n : name) : bool := prefix "_" n.

Lemma scalar_name_letter p a : first_is_underscore (scalar_name p a) = false.
Proof. destruct p; reflexivity. Qed.
Lemma elem_name_letter p a : first_is_underscore (elem_name p a) = false.
Proof. destruct p; reflexivity. Qed.

Lemma scalar_not_top p a t : scalar_name p a <> top_name t.
Proof. unfold scalar_name. destruct p, t; simpl; intro H; discriminate. Qed.
Lemma elem_not_top p a t : elem_name p a <> top_name t.
Proof. unfold elem_name. destruct p, t; simpl; intro H; discriminate. Qed.

(* ------------------------------------------------------------------ the collision loop, relationally *)
Fixpoint follows (names taken : list name) (todo r : list (name * aspec)) : Prop :=
  match todo, r with
  | [], [] => True
  | (a, s) :: t, (a', s') :: r' =>
      a' = a /\ a_ty s' = a_ty s /\ a_helpers s' = a_helpers s /\
      if is_coll s then
        ~ In (a_item s') names /\ ~ In (a_item s') taken /\
        (a_item s' = a_item s \/
         (a_item s' = item_fallback a /\ (In (a_item s) names \/ In (a_item s) taken))) /\
        follows names (a_item s' :: taken) t r'
      else a_item s' = a_item s /\ follows names taken t r'
  | _, _ => False
  end.

Lemma resolve_follows names taken todo r :
  resolve names taken todo = Ok r -> follows names taken todo r.
Proof.
  revert taken r. induction todo as [|[a s] t IH]; simpl; intros taken r H.
  - inversion H; simpl; auto.
  - destruct (is_coll s) eqn:Ec.
    + destruct (memb (a_item s) names || memb (a_item s) taken) eqn:Em.
      * destruct (negb (memb (item_fallback a) names) && negb (memb (item_fallback a) taken)) eqn:Ef; [|discriminate].
        destruct (resolve names (item_fallback a :: taken) t) eqn:E; [|discriminate].
        inversion H; subst. simpl.
        apply andb_true_iff in Ef. destruct Ef as [F1 F2].
        apply negb_true_iff in F1, F2. apply memb_false in F1, F2.
        apply orb_true_iff in Em. rewrite !memb_In in Em.
        repeat split; auto.
      * destruct (resolve names (a_item s :: taken) t) eqn:E; [|discriminate].
        inversion H; subst. simpl.
        apply orb_false_iff in Em. destruct Em as [F1 F2]. apply memb_false in F1, F2.
        repeat split; auto.
    + destruct (resolve names taken t) eqn:E; [|discriminate].
      inversion H; subst. simpl. repeat split; auto.
Qed.

Lemma is_coll_ty s s' : a_ty s' = a_ty s -> is_coll s' = is_coll s.
Proof. unfold is_coll. intros ->. reflexivity. Qed.

(* every collection item name of the result avoids names and taken *)
Lemma follows_avoid names taken todo r :
  follows names taken todo r ->
  forall a s', In (a, s') r -> is_coll s' = true -> ~ In (a_item s') names /\ ~ In (a_item s') taken.
Proof.
  revert taken r. induction todo as [|[a0 s0] t IH]; intros taken [|[a1 s1] r'] F; simpl in F; try tauto; try (intros; simpl in *; tauto).
  destruct F as (-> & Ht & Hh & F). intros a s' [Hin|Hin] Hc.
    + inversion Hin; subst. rewrite <- (is_coll_ty _ _ Ht), Hc in F. tauto.
    + destruct (is_coll s0).
      * destruct F as (_ & _ & _ & F). destruct (IH _ _ F _ _ Hin Hc) as [H1 H2].
        split; auto. intro; apply H2; right; auto.
      * destruct F as (_ & F). eapply IH; eauto.
Qed.

Lemma follows_inj names taken todo r :
  follows names taken todo r ->
  forall a s1 b s2, In (a, s1) r -> In (b, s2) r -> is_coll s1 = true -> is_coll s2 = true ->
    a_item s1 = a_item s2 -> (a, s1) = (b, s2).
Proof.
  revert taken r. induction todo as [|[a0 s0] t IH]; intros taken [|[a1 s1'] r'] F; simpl in F; try tauto; try (intros; simpl in *; tauto).
  destruct F as (-> & Ht & Hh & F). intros a s1 b s2 H1 H2 C1 C2 E.
    destruct (is_coll s0) eqn:Ec.
    + destruct F as (_ & _ & _ & F).
      destruct H1 as [H1|H1], H2 as [H2|H2].
      * congruence.
      * inversion H1; subst. destruct (follows_avoid _ _ _ _ F _ _ H2 C2) as [_ Hn].
        exfalso. apply Hn. left. auto.
      * inversion H2; subst. destruct (follows_avoid _ _ _ _ F _ _ H1 C1) as [_ Hn].
        exfalso. apply Hn. left. auto.
      * eapply IH; eauto.
    + destruct F as (_ & F).
      assert (is_coll s1' = false) as Hf by (rewrite (is_coll_ty _ _ Ht); auto).
      destruct H1 as [H1|H1]; [inversion H1; subst; congruence|].
      destruct H2 as [H2|H2]; [inversion H2; subst; congruence|].
      eapply IH; eauto.
Qed.

(* pointwise relation with the input *)
Lemma follows_pointwise names taken todo r :
  follows names taken todo r ->
  forall a s', In (a, s') r ->
    exists s, In (a, s) todo /\ a_ty s' = a_ty s /\ a_helpers s' = a_helpers s /\
              (a_item s' = a_item s \/ a_item s' = item_fallback a).
Proof.
  revert taken r. induction todo as [|[a0 s0] t IH]; intros taken [|[a1 s1] r'] F; simpl in F; try tauto; try (intros; simpl in *; tauto).
  destruct F as (-> & Ht & Hh & F). intros a s' [Hin|Hin].
    + inversion Hin; subst. exists s0. split; [left; auto|]. repeat split; auto.
      destruct (is_coll s0); [|tauto]. destruct F as (_ & _ & [E|[E _]] & _); auto.
    + assert (exists tk, follows names tk t r') as [tk F'].
      { destruct (is_coll s0); [exists (a_item s1 :: taken)|exists taken]; tauto. }
      destruct (IH _ _ F' _ _ Hin) as (s & Hs & R). exists s. split; [right; auto|auto].
Qed.

(* a fallback is used only on a collision: with an attribute name, with a name
   in `taken`, or with the item name of another collection of the result *)
Lemma follows_cause names taken todo r :
  follows names taken todo r ->
  forall a s', In (a, s') r -> is_coll s' = true ->
    exists s, In (a, s) todo /\
      (a_item s' = a_item s \/
       (a_item s' = item_fallback a /\ a_item s' <> a_item s /\
        (In (a_item s) names \/ In (a_item s) taken \/
         exists b sb, In (b, sb) r /\ is_coll sb = true /\ a_item sb = a_item s))).
Proof.
  revert taken r. induction todo as [|[a0 s0] t IH]; intros taken [|[a1 s1] r'] F; simpl in F; try tauto; try (intros; simpl in *; tauto).
  destruct F as (-> & Ht & Hh & F). intros a s' [Hin|Hin] Hc.
    + inversion Hin; subst. exists s0. split; [left; auto|].
      rewrite <- (is_coll_ty _ _ Ht), Hc in F.
      destruct F as (N1 & N2 & [E|[E Hcause]] & _); auto.
      right. split; auto. split.
      * intro E2. rewrite E2 in N1, N2. tauto.
      * tauto.
    + destruct (is_coll s0) eqn:Ec.
      * destruct F as (_ & _ & _ & F).
        destruct (IH _ _ F _ _ Hin Hc) as (s & Hs & [E|(E & Ne & Hcause)]).
        -- exists s. split; [right; auto|auto].
        -- exists s. split; [right; auto|]. right. split; auto. split; auto.
           destruct Hcause as [H|[[H|H]|(b & sb & Hb & Cb & Eb)]]; auto.
           ++ right. right. exists a0, s1. split; [left; auto|].
              split; [rewrite (is_coll_ty _ _ Ht); auto|auto].
           ++ right. right. exists b, sb. split; [right; auto|auto].
      * destruct F as (_ & F).
        destruct (IH _ _ F _ _ Hin Hc) as (s & Hs & [E|(E & Ne & Hcause)]).
        -- exists s. split; [right; auto|auto].
        -- exists s. split; [right; auto|]. right. split; auto. split; auto.
           destruct Hcause as [H|[H|(b & sb & Hb & Cb & Eb)]]; auto.
           right. right. exists b, sb. split; [right; auto|auto].
Qed.
