(* C15 — executable twin of the specification Ty/Conforms.v (proved
   equivalent to it in Ty/Proofs.v).  It is the property oracle of the
   correspondence check; it never calls the model Ty/CheckType.v and has no
   notion of "raising": plain boolean recursion. *)
From Coq Require Import List ZArith Bool.
From SC Require Import Base.Res Ty.Ty Ty.Conforms.
Import ListNotations.
Open Scope Z_scope.

(* reachability along `edges` in at most n steps *)
Fixpoint reachb (n : nat) (a b : cls) : bool :=
  cls_eqb a b ||
  match n with
  | O => false
  | S n' => existsb (fun e => cls_eqb (fst e) a && reachb n' (snd e) b) edges
  end.
Definition subclassb (a b : cls) : bool := cls_eqb b CObject || reachb 3 a b.

Definition opt_eqb (a b : option Z) : bool :=
  match a, b with Some x, Some y => x =? y | _, _ => false end.

Definition py_eqb (v : val) (k : const) : bool :=
  match v, k with
  | VNone, KNone => true
  | VStr s, KStr s' => s =? s'
  | VBytes s, KBytes s' => s =? s'
  | _, _ => opt_eqb (num2 v) (num2 (val_of_const k))
  end.

Fixpoint sub_tyb (c : cls) (t : ty) : bool :=
  match t with
  | TAny | TTypeVar => true
  | TNone => subclassb c CNoneType
  | TCls c' => subclassb c c'
  | TUnion _ ts => existsb (sub_tyb c) ts
  | _ => false
  end.

Definition num_relb (R : Z -> Z -> bool) (v : val) (q : num) : bool :=
  match num2 v with Some x => R x (num2n q) | None => false end.
Definition bound_okb (R : Z -> Z -> bool) (v : val) (b : option num) : bool :=
  match b with None => true | Some q => num_relb R v q end.

Definition cls_okb (v : val) (c : cls) : bool :=
  subclassb (class_of v) c || (cls_eqb c CFloat && subclassb (class_of v) CInt).

(* positional comparison of two lists of equal length *)
Definition forall2b {A B} (g : A -> B -> bool) : list A -> list B -> bool :=
  fix go (ts : list A) (l : list B) : bool :=
    match ts, l with
    | [], [] => true
    | t :: ts', x :: l' => g t x && go ts' l'
    | _, _ => false
    end.

Section Oracle.
  Variable psem : Z -> val -> res bool.

  Fixpoint conformsb (t : ty) (v : val) {struct t} : bool :=
    match t with
    | TAny | TTypeVar => true
    | TNone => subclassb (class_of v) CNoneType
    | TCls c => cls_okb v c
    | TUnion _ ts => existsb (fun t' => conformsb t' v) ts
    | TLit ks => existsb (py_eqb v) ks
    | TList _ t' => match v with VList l => forallb (conformsb t') l | _ => false end
    | TSet _ t' => match v with VSet l => forallb (conformsb t') l | _ => false end
    | TDict _ k t' =>
        match v with
        | VDict kvs => forallb (fun kv => conformsb k (fst kv) && conformsb t' (snd kv)) kvs
        | _ => false
        end
    | TTuple _ ts =>
        match v with
        | VTuple l => forall2b (fun t' x => conformsb t' x) ts l
        | _ => false
        end
    | TTupleVar _ t' => match v with VTuple l => forallb (conformsb t') l | _ => false end
    | TType _ t' => match v with VClass c => sub_tyb c t' | _ => false end
    | TBounded c ge gt le lt =>
        cls_okb v c && bound_okb Z.geb v ge && bound_okb Z.gtb v gt
        && bound_okb Z.leb v le && bound_okb Z.ltb v lt
    | TValidated p => match psem p v with Ok true => true | _ => false end
    end.

  (* decidable part of in_language: ptotal p = true promises total_pred p *)
  Variable ptotal : Z -> bool.

  Fixpoint type_argb (t : ty) : bool :=
    match t with
    | TAny | TNone | TCls _ => true
    | TUnion _ ts => forallb type_argb ts
    | _ => false
    end.

  Definition numeric_clsb (c : cls) : bool :=
    cls_eqb c CInt || cls_eqb c CFloat || cls_eqb c CBool || cls_eqb c CReal.

  Fixpoint in_languageb (t : ty) : bool :=
    match t with
    | TAny | TNone | TCls _ | TLit _ => true
    | TTypeVar => false
    | TUnion _ ts | TTuple _ ts => forallb in_languageb ts
    | TList _ t' | TSet _ t' | TTupleVar _ t' => in_languageb t'
    | TDict _ k v => in_languageb k && in_languageb v
    | TType _ t' => type_argb t'
    | TBounded c _ _ _ _ => numeric_clsb c
    | TValidated p => ptotal p
    end.
End Oracle.
