(* C15 — MODEL of spec_classes/utils/type_checking.py:check_type and of
   spec_classes/types/validated.py (ValidatedTypeMeta.__instancecheck__,
   validated, bounded), branch by branch, for CPython 3.12.  Exceptions are
   values (Err).  No proofs here.

   `legacy = true` is the code before the two `fix:` commits of C15
   (kept as regression evidence only; see Props/C15.v):
     - Type[Any] went through issubclass(value, typing.Any), which is False
       for every class on 3.12;
     - a literal `None` argument (list[None], dict[str, None], type[None] —
       PEP 585 aliases do not convert it to NoneType) reached
       isinstance(value, None) / issubclass(value, None): TypeError. *)
From Coq Require Import List ZArith Bool.
From SC Require Import Base.Res Ty.Ty.
Import ListNotations.
Open Scope Z_scope.

(* ---------------------------------------------------------------- issubclass *)
(* The class lattice as data: for every class, the classes it is a subclass
   of according to issubclass() (ABC registrations included).  The harness
   recomputes this table from the running interpreter on every run and
   compares (Corr/TyCorr.v:lattice_check). *)
Definition lattice : list (cls * list cls) :=
  [ (CObject,    [CObject]);
    (CInt,       [CObject; CInt; CReal]);
    (CFloat,     [CObject; CFloat; CReal]);
    (CReal,      [CObject; CReal]);
    (CStr,       [CObject; CStr]);
    (CBool,      [CObject; CInt; CReal; CBool]);
    (CBytes,     [CObject; CBytes]);
    (CNoneType,  [CObject; CNoneType]);
    (CUser,      [CObject; CUser]);
    (CUserSub,   [CObject; CUser; CUserSub]);
    (CSpec,      [CObject; CSpec]);
    (CSpecSub,   [CObject; CSpec; CSpecSub]);
    (CList,      [CObject; CList]);
    (CSet,       [CObject; CSet]);
    (CFrozenSet, [CObject; CFrozenSet]);
    (CDict,      [CObject; CDict]);
    (CTuple,     [CObject; CTuple]);
    (CType,      [CObject; CType]) ].

Fixpoint lookup (a : cls) (tbl : list (cls * list cls)) : list cls :=
  match tbl with
  | [] => []
  | (c, ups) :: r => if cls_eqb a c then ups else lookup a r
  end.

(* issubclass(a, b) *)
Definition issub (a b : cls) : bool := existsb (cls_eqb b) (lookup a lattice).
(* isinstance(v, c) for a class c *)
Definition isinstance (v : val) (c : cls) : bool := issub (class_of v) c.

(* ---------------------------------------------------------------- helpers *)
(* any(f(x) for x in l): stops at the first True, an exception propagates *)
Definition any_res {A} (f : A -> res bool) : list A -> res bool :=
  fix go (l : list A) : res bool :=
    match l with
    | [] => Ok false
    | x :: r => match f x with
                | Err e => Err e
                | Ok true => Ok true
                | Ok false => go r
                end
    end.

(* for x in l: if not f(x): return False  ...  return True *)
Definition all_res {A} (f : A -> res bool) : list A -> res bool :=
  fix go (l : list A) : res bool :=
    match l with
    | [] => Ok true
    | x :: r => match f x with
                | Err e => Err e
                | Ok false => Ok false
                | Ok true => go r
                end
    end.

(* for i, x in enumerate(l): if not f(ts[i], x): return False  (equal lengths) *)
Definition all2_res {A B} (f : A -> B -> res bool) : list A -> list B -> res bool :=
  fix go (ts : list A) (l : list B) : res bool :=
    match ts, l with
    | t :: ts', x :: l' => match f t x with
                           | Err e => Err e
                           | Ok false => Ok false
                           | Ok true => go ts' l'
                           end
    | _, _ => Ok true
    end.

(* `for item in value` *)
Definition iter_items (v : val) : list val :=
  match v with
  | VTuple l | VList l | VSet l | VFrozenSet l => l
  | VDict kvs => map fst kvs
  | _ => []
  end.
(* `value.items()` *)
Definition dict_items (v : val) : list (val * val) :=
  match v with VDict kvs => kvs | _ => [] end.

(* `value in attr_type.__args__` on a tuple of constants: identity or == *)
Definition eq_const (v : val) (k : const) : bool :=
  match v with
  | VNone => match k with KNone => true | _ => false end
  | VStr s => match k with KStr s' => s =? s' | _ => false end
  | VBytes s => match k with KBytes s' => s =? s' | _ => false end
  | VBool _ | VInt _ | VFloat _ =>
      match num2 v, num2 (val_of_const k) with
      | Some x, Some y => x =? y
      | _, _ => false
      end
  | _ => false      (* containers, classes and instances equal no constant *)
  end.

(* `obj < q` etc. between a value and a numeric constant: TypeError unless
   the value is a number *)
Definition cmp (R : Z -> Z -> bool) (v : val) (q : num) : res bool :=
  match num2 v with
  | Some x => Ok (R x (num2n q))
  | None => Err TypeErr
  end.

Section Model.
  Variable psem : Z -> val -> res bool.      (* the user predicates of validated() *)
  Variable legacy : bool.

  (* final `return isinstance(value, attr_type)` for a class, after
     `if attr_type is float: attr_type = numbers.Real` *)
  Definition check_cls (v : val) (c : cls) : bool :=
    isinstance v (match c with CFloat => CReal | _ => c end).

  (* check_subclass(value, T) — the helper behind the Type[T] branch:
       Any / TypeVar                      -> True
       None                               -> NoneType
       Union / X | Y                      -> any(...)
       otherwise                          -> issubclass(value, T)
     issubclass raises TypeError for subscripted generics and Literal; for a
     validated/bounded type it is ABCMeta.__subclasscheck__, False for every
     class of the value language.
     legacy: issubclass(value, T) directly. *)
  Fixpoint sub_check (c : cls) (t : ty) : res bool :=
    match t with
    | TAny => Ok (negb legacy)
    | TTypeVar => if legacy then Err TypeErr else Ok true
    | TNone => if legacy then Err TypeErr else Ok (issub c CNoneType)
    | TUnion _ ts => any_res (sub_check c) ts
    | TCls c' => Ok (issub c c')
    | TBounded _ _ _ _ _ | TValidated _ => Ok false
    | TLit _ | TList _ _ | TSet _ _ | TDict _ _ _ | TTuple _ _ | TTupleVar _ _
    | TType _ _ => Err TypeErr
    end.

  (* validator of bounded(c, ge=, gt=, le=, lt=):
       if not check_type(obj, numeric_type): return False
       if ge is not None and obj <  ge: return False
       if gt is not None and obj <= gt: return False
       if le is not None and obj >  le: return False
       if lt is not None and obj >= lt: return False
       return True *)
  Definition violates (R : Z -> Z -> bool) (v : val) (b : option num) : res bool :=
    match b with None => Ok false | Some q => cmp R v q end.
  Definition gate (r : res bool) (k : res bool) : res bool :=
    match r with Err e => Err e | Ok true => Ok false | Ok false => k end.
  Definition bounded_validate (v : val) (c : cls) (ge gt le lt : option num) : res bool :=
    if negb (check_cls v c) then Ok false else
    gate (violates Z.ltb v ge) (gate (violates Z.leb v gt)
      (gate (violates Z.gtb v le) (gate (violates Z.geb v lt) (Ok true)))).

  Fixpoint check_type (t : ty) (v : val) {struct t} : res bool :=
    match t with
    (* if attr_type is Any or isinstance(attr_type, TypeVar): return True *)
    | TAny | TTypeVar => Ok true
    (* if attr_type is None: attr_type = type(None)   [legacy: isinstance(value, None)] *)
    | TNone => if legacy then Err TypeErr else Ok (isinstance v CNoneType)
    (* a class has no __origin__: float -> numbers.Real; return isinstance(value, attr_type) *)
    | TCls c => Ok (check_cls v c)
    (* types.UnionType, and __origin__ is Union: any(check_type(value, t) for t in __args__) *)
    | TUnion UPep604 ts => any_res (fun t' => check_type t' v) ts
    | TUnion UTyping ts => any_res (fun t' => check_type t' v) ts
    (* __origin__ is Literal: value in __args__ *)
    | TLit ks => Ok (existsb (eq_const v) ks)
    (* _GenericAlias / types.GenericAlias: isinstance(value, __origin__) first *)
    | TList _ t' =>
        if negb (isinstance v CList) then Ok false
        else all_res (check_type t') (iter_items v)
    | TSet _ t' =>
        if negb (isinstance v CSet) then Ok false
        else all_res (check_type t') (iter_items v)
    | TDict _ k t' =>
        if negb (isinstance v CDict) then Ok false
        else all_res (fun kv => match check_type k (fst kv) with
                                | Err e => Err e
                                | Ok false => Ok false
                                | Ok true => check_type t' (snd kv)
                                end) (dict_items v)
    | TTupleVar _ t' =>                       (* len(args) == 2 and args[1] is Ellipsis *)
        if negb (isinstance v CTuple) then Ok false
        else all_res (check_type t') (iter_items v)
    | TTuple _ ts =>
        if negb (isinstance v CTuple) then Ok false
        else if negb (Nat.eqb (length (iter_items v)) (length ts)) then Ok false
        else all2_res (fun t' x => check_type t' x) ts (iter_items v)
    | TType _ t' =>
        if negb (isinstance v CType) then Ok false
        else match v with
             | VClass c => sub_check c t'
             | _ => Ok false
             end
    (* validated types are classes: isinstance(value, T) is T.validate(value) *)
    | TBounded c ge gt le lt => bounded_validate v c ge gt le lt
    | TValidated p => psem p v
    end.
End Model.
