(* C15 — facts about the correspondence checker Corr/TyCorr.v: the concrete
   predicates it uses are total where it says so, and a case it accepts
   inside the language is a case where the implementation answered
   `conforms`.  (Kept apart from Corr/TyCorr.v so that the checker still
   evaluates when a proof is broken.) *)
From Coq Require Import List ZArith Bool Lia.
From SC Require Import Base.Res Ty.Ty Ty.Conforms Ty.Oracle Ty.CheckType Ty.Proofs Corr.TyCorr.
Import ListNotations.
Open Scope Z_scope.

Lemma ptotal_pool_ok p : ptotal_pool p = true -> total_pred psem_pool p.
Proof.
  unfold ptotal_pool. intro H.
  apply orb_true_iff in H. destruct H as [H|H]; [apply orb_true_iff in H; destruct H as [H|H]|];
    apply Z.eqb_eq in H; subst; intro v; simpl; destruct v; eauto.
Qed.

Theorem in_languageb_pool_sound t :
  in_languageb ptotal_pool t = true -> in_language psem_pool t.
Proof. apply in_languageb_sound. exact ptotal_pool_ok. Qed.

(* what code 0/1 of check_case means for the property *)
Theorem spec_accepts_sound c :
  spec_accepts c = true -> in_languageb ptotal_pool (c_ty c) = true ->
  0 <= c_out c /\ (c_out c = 1 <-> conforms psem_pool (c_val c) (c_ty c)).
Proof.
  unfold spec_accepts. intros H L. rewrite L in H.
  apply andb_true_iff in H. destruct H as [H1 H2].
  apply Z.leb_le in H1. apply eqb_prop in H2. split; [exact H1|].
  rewrite <- conformsb_iff, H2. apply iff_sym, Z.eqb_eq.
Qed.

Theorem check_case_zero c :
  check_case c = 0%nat ->
  spec_accepts c = true /\
  out_of_res (check_type psem_pool false (c_ty c) (c_val c)) = c_out c.
Proof.
  unfold check_case. destruct (spec_accepts c); [|discriminate].
  destruct (out_of_res _ =? c_out c) eqn:E; [|discriminate].
  intros _. split; [reflexivity|]. now apply Z.eqb_eq.
Qed.
