(* C15 — syntax shared by the specification (Ty/Conforms.v) and the model
   (Ty/CheckType.v) of spec_classes.utils.type_checking.check_type:
   classes, values, annotations.  No semantics of the check lives here. *)
From Coq Require Import List ZArith Bool.
Import ListNotations.
Open Scope Z_scope.

(* ---------------------------------------------------------------- classes *)
(* The classes that can be named in an annotation or be the class of a value.
   CReal is numbers.Real (the code replaces `float` by it); CUserSub is a
   subclass of the plain user class CUser, CSpecSub of the spec class CSpec. *)
Inductive cls : Set :=
| CObject | CInt | CFloat | CReal | CStr | CBool | CBytes | CNoneType
| CUser | CUserSub | CSpec | CSpecSub
| CList | CSet | CFrozenSet | CDict | CTuple | CType.

Definition all_cls : list cls :=
  [CObject; CInt; CFloat; CReal; CStr; CBool; CBytes; CNoneType;
   CUser; CUserSub; CSpec; CSpecSub; CList; CSet; CFrozenSet; CDict; CTuple; CType].

Definition cls_idx (c : cls) : Z :=
  match c with
  | CObject => 0 | CInt => 1 | CFloat => 2 | CReal => 3 | CStr => 4 | CBool => 5
  | CBytes => 6 | CNoneType => 7 | CUser => 8 | CUserSub => 9 | CSpec => 10
  | CSpecSub => 11 | CList => 12 | CSet => 13 | CFrozenSet => 14 | CDict => 15
  | CTuple => 16 | CType => 17
  end.
Definition cls_eqb (a b : cls) : bool := cls_idx a =? cls_idx b.

(* classes that have instances without literal syntax *)
Inductive ucls : Set := UUser | UUserSub | USpec | USpecSub.
Definition cls_of_ucls (u : ucls) : cls :=
  match u with UUser => CUser | UUserSub => CUserSub | USpec => CSpec | USpecSub => CSpecSub end.

(* ---------------------------------------------------------------- values *)
(* Floats are the multiples of 1/2 (VFloat h is h/2, so 1.0 = VFloat 2):
   exactly representable, and every int/float comparison Python makes on
   them is exact.  Strings and bytes are numbered (bijection with words
   over {a,b}; 0 is the empty word).  Sets and dicts list their elements in
   iteration order. *)
Inductive val : Set :=
| VNone
| VBool (b : bool)
| VInt (z : Z)
| VFloat (h : Z)
| VStr (s : Z)
| VBytes (s : Z)
| VTuple (l : list val)
| VList (l : list val)
| VSet (l : list val)
| VFrozenSet (l : list val)
| VDict (kvs : list (val * val))
| VClass (c : cls)              (* the class object itself *)
| VInst (u : ucls).             (* an instance of a user / spec class *)

Definition class_of (v : val) : cls :=
  match v with
  | VNone => CNoneType | VBool _ => CBool | VInt _ => CInt | VFloat _ => CFloat
  | VStr _ => CStr | VBytes _ => CBytes | VTuple _ => CTuple | VList _ => CList
  | VSet _ => CSet | VFrozenSet _ => CFrozenSet | VDict _ => CDict
  | VClass _ => CType | VInst u => cls_of_ucls u
  end.

(* twice the numeric value of a number (bool, int, float); None otherwise *)
Definition num2 (v : val) : option Z :=
  match v with
  | VBool b => Some (if b then 2 else 0)
  | VInt z => Some (2 * z)
  | VFloat h => Some h
  | _ => None
  end.

(* numeric constants of bounded(...) *)
Inductive num : Set := NInt (z : Z) | NHalf (h : Z).
Definition num2n (n : num) : Z := match n with NInt z => 2 * z | NHalf h => h end.

(* constants that may appear in Literal[...] *)
Inductive const : Set :=
| KNone | KBool (b : bool) | KInt (z : Z) | KStr (s : Z) | KBytes (s : Z).
Definition val_of_const (k : const) : val :=
  match k with
  | KNone => VNone | KBool b => VBool b | KInt z => VInt z
  | KStr s => VStr s | KBytes s => VBytes s
  end.

(* ---------------------------------------------------------------- annotations *)
Inductive form : Set := Typing | Builtin.     (* typing.List[T]  vs  PEP 585 list[T] *)
Inductive ukind : Set := UTyping | UPep604.   (* typing.Union/Optional  vs  X | Y (types.UnionType) *)

Inductive ty : Set :=
| TAny
| TTypeVar                                   (* a typing.TypeVar *)
| TNone                                      (* `None` written literally *)
| TCls (c : cls)                             (* a class; NoneType is TCls CNoneType *)
| TUnion (k : ukind) (ts : list ty)          (* Union[...], Optional[T] = Union[T, NoneType], X | Y *)
| TLit (ks : list const)                     (* Literal[k1, ...] *)
| TList (f : form) (t : ty)
| TSet (f : form) (t : ty)
| TDict (f : form) (k v : ty)
| TTuple (f : form) (ts : list ty)           (* Tuple[T1, ..., Tn]; Tuple[()] is ts = [] *)
| TTupleVar (f : form) (t : ty)              (* Tuple[T, ...] *)
| TType (f : form) (t : ty)                  (* Type[T] *)
| TBounded (c : cls) (ge gt le lt : option num)   (* bounded(c, ge=, gt=, le=, lt=) *)
| TValidated (p : Z).                        (* validated(predicate number p) *)

(* Induction principle that reaches through the lists of TUnion / TTuple. *)
Section TyInd.
  Variable P : ty -> Prop.
  Hypothesis HAny : P TAny.
  Hypothesis HTypeVar : P TTypeVar.
  Hypothesis HNone : P TNone.
  Hypothesis HCls : forall c, P (TCls c).
  Hypothesis HUnion : forall k ts, Forall P ts -> P (TUnion k ts).
  Hypothesis HLit : forall ks, P (TLit ks).
  Hypothesis HList : forall f t, P t -> P (TList f t).
  Hypothesis HSet : forall f t, P t -> P (TSet f t).
  Hypothesis HDict : forall f k v, P k -> P v -> P (TDict f k v).
  Hypothesis HTuple : forall f ts, Forall P ts -> P (TTuple f ts).
  Hypothesis HTupleVar : forall f t, P t -> P (TTupleVar f t).
  Hypothesis HType : forall f t, P t -> P (TType f t).
  Hypothesis HBounded : forall c ge gt le lt, P (TBounded c ge gt le lt).
  Hypothesis HValidated : forall p, P (TValidated p).

  Fixpoint ty_ind' (t : ty) : P t :=
    let fix all (ts : list ty) : Forall P ts :=
      match ts with
      | [] => Forall_nil P
      | x :: r => Forall_cons x (ty_ind' x) (all r)
      end in
    match t with
    | TAny => HAny
    | TTypeVar => HTypeVar
    | TNone => HNone
    | TCls c => HCls c
    | TUnion k ts => HUnion k ts (all ts)
    | TLit ks => HLit ks
    | TList f t => HList f t (ty_ind' t)
    | TSet f t => HSet f t (ty_ind' t)
    | TDict f k v => HDict f k v (ty_ind' k) (ty_ind' v)
    | TTuple f ts => HTuple f ts (all ts)
    | TTupleVar f t => HTupleVar f t (ty_ind' t)
    | TType f t => HType f t (ty_ind' t)
    | TBounded c ge gt le lt => HBounded c ge gt le lt
    | TValidated p => HValidated p
    end.
End TyInd.

(* nesting depth of an annotation (atoms have depth 1) *)
Fixpoint depth (t : ty) : nat :=
  match t with
  | TUnion _ ts | TTuple _ ts => S (fold_right Nat.max O (map depth ts))
  | TList _ t | TSet _ t | TTupleVar _ t | TType _ t => S (depth t)
  | TDict _ k v => S (Nat.max (depth k) (depth v))
  | _ => 1%nat
  end.
