(* C15 — SPECIFICATION: when does a value conform to an annotation?
   Written from the property text, clause by clause; it does not mention the
   control flow of check_type.

     "A value is accepted for an annotation exactly when it conforms to it:
      class membership (int accepted where float is declared), some
      alternative of Union/Optional/X|Y, equality with a Literal choice, and
      recursively the element types of List/Set, key and value types of Dict,
      positional or variadic element types of Tuple, the subclass relation for
      Type[T], and the predicate of validated/bounded types with bounds
      inclusive or exclusive as declared.  Within this annotation language
      the check never raises."                                              *)
From Coq Require Import List ZArith Bool.
From SC Require Import Base.Res Ty.Ty.
Import ListNotations.
Open Scope Z_scope.

(* ---------------------------------------------------------------- class lattice *)
(* The direct facts; everything else follows by reflexivity, transitivity
   and `object` being on top.  (int and float are registered with
   numbers.Real; bool derives from int.) *)
Definition edges : list (cls * cls) :=
  [(CBool, CInt); (CInt, CReal); (CFloat, CReal); (CUserSub, CUser); (CSpecSub, CSpec)].

Inductive subclass : cls -> cls -> Prop :=
| sub_refl c : subclass c c
| sub_object c : subclass c CObject
| sub_edge a b : In (a, b) edges -> subclass a b
| sub_trans a b c : subclass a b -> subclass b c -> subclass a c.

(* ---------------------------------------------------------------- Literal *)
(* "equality with a Literal choice": Python's ==.  Numbers of the three
   numeric classes are equal when they denote the same number (so True == 1
   == 1.0); None, str and bytes are equal only to themselves. *)
Inductive py_eq : val -> const -> Prop :=
| eq_none : py_eq VNone KNone
| eq_num v k x : num2 v = Some x -> num2 (val_of_const k) = Some x -> py_eq v k
| eq_str s : py_eq (VStr s) (KStr s)
| eq_bytes s : py_eq (VBytes s) (KBytes s).

(* ---------------------------------------------------------------- Type[T] *)
(* "the subclass relation for Type[T]": class c is acceptable for T. *)
Inductive sub_ty : cls -> ty -> Prop :=
| st_any c : sub_ty c TAny
| st_typevar c : sub_ty c TTypeVar
| st_none c : subclass c CNoneType -> sub_ty c TNone
| st_cls c c' : subclass c c' -> sub_ty c (TCls c')
| st_union c k ts : Exists (sub_ty c) ts -> sub_ty c (TUnion k ts).

(* ---------------------------------------------------------------- bounds *)
(* v is a number and  q <= v  (inclusive) /  q < v  (exclusive), etc. *)
Definition num_rel (R : Z -> Z -> Prop) (v : val) (q : num) : Prop :=
  exists x, num2 v = Some x /\ R x (num2n q).
Definition bound_ok (R : Z -> Z -> Prop) (v : val) (b : option num) : Prop :=
  match b with None => True | Some q => num_rel R v q end.

Section Spec.
  (* meaning of the user predicates handed to validated(): predicate number
     p applied to v returns a truth value or raises *)
  Variable psem : Z -> val -> res bool.

  Inductive conforms : val -> ty -> Prop :=
  | c_any v : conforms v TAny
  | c_typevar v : conforms v TTypeVar
  (* class membership *)
  | c_none v : subclass (class_of v) CNoneType -> conforms v TNone
  | c_cls v c : subclass (class_of v) c -> conforms v (TCls c)
  | c_int_for_float v : subclass (class_of v) CInt -> conforms v (TCls CFloat)
  (* some alternative *)
  | c_union v k ts : Exists (conforms v) ts -> conforms v (TUnion k ts)
  (* equality with a choice *)
  | c_lit v ks : Exists (py_eq v) ks -> conforms v (TLit ks)
  (* containers, recursively *)
  | c_list f t l : Forall (fun x => conforms x t) l -> conforms (VList l) (TList f t)
  | c_set f t l : Forall (fun x => conforms x t) l -> conforms (VSet l) (TSet f t)
  | c_dict f k t kvs :
      Forall (fun kv => conforms (fst kv) k /\ conforms (snd kv) t) kvs ->
      conforms (VDict kvs) (TDict f k t)
  | c_tuple f ts l : Forall2 conforms l ts -> conforms (VTuple l) (TTuple f ts)
  | c_tuplevar f t l : Forall (fun x => conforms x t) l -> conforms (VTuple l) (TTupleVar f t)
  (* Type[T] *)
  | c_type f t c : sub_ty c t -> conforms (VClass c) (TType f t)
  (* bounded: member of the numeric class, and every declared bound holds *)
  | c_bounded v c ge gt le lt :
      conforms v (TCls c) ->
      bound_ok Z.ge v ge -> bound_ok Z.gt v gt -> bound_ok Z.le v le -> bound_ok Z.lt v lt ->
      conforms v (TBounded c ge gt le lt)
  (* validated: the predicate says yes *)
  | c_validated v p : psem p v = Ok true -> conforms v (TValidated p).

  (* ------------------------------------------------------------ the language *)
  (* The annotation language of the property.  Arguments of Type[...] are
     classes, Any, or unions of those; bounded() is over a numeric class;
     validated() predicates answer for every value. *)
  Inductive type_arg : ty -> Prop :=
  | ta_any : type_arg TAny
  | ta_none : type_arg TNone
  | ta_cls c : type_arg (TCls c)
  | ta_union k ts : Forall type_arg ts -> type_arg (TUnion k ts).

  Definition numeric_cls (c : cls) : Prop := c = CInt \/ c = CFloat \/ c = CBool \/ c = CReal.
  Definition total_pred (p : Z) : Prop := forall v, exists b, psem p v = Ok b.

  Inductive in_language : ty -> Prop :=
  | l_any : in_language TAny
  | l_none : in_language TNone
  | l_cls c : in_language (TCls c)
  | l_union k ts : Forall in_language ts -> in_language (TUnion k ts)
  | l_lit ks : in_language (TLit ks)
  | l_list f t : in_language t -> in_language (TList f t)
  | l_set f t : in_language t -> in_language (TSet f t)
  | l_dict f k v : in_language k -> in_language v -> in_language (TDict f k v)
  | l_tuple f ts : Forall in_language ts -> in_language (TTuple f ts)
  | l_tuplevar f t : in_language t -> in_language (TTupleVar f t)
  | l_type f t : type_arg t -> in_language (TType f t)
  | l_bounded c ge gt le lt : numeric_cls c -> in_language (TBounded c ge gt le lt)
  | l_validated p : total_pred p -> in_language (TValidated p).
End Spec.
