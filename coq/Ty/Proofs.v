(* C15 — proofs relating the model Ty/CheckType.v, the specification
   Ty/Conforms.v and its executable twin Ty/Oracle.v.  Everything is by
   structural induction on the annotation: no bound on depth or on the size
   of values. *)
From Coq Require Import List ZArith Bool Lia.
From SC Require Import Base.Res Ty.Ty Ty.Conforms Ty.Oracle Ty.CheckType.
Import ListNotations.
Open Scope Z_scope.

(* ================================================================ classes *)
Lemma cls_eqb_eq a b : cls_eqb a b = true <-> a = b.
Proof. destruct a, b; vm_compute; split; intro H; try reflexivity; discriminate. Qed.

Lemma cls_eqb_refl a : cls_eqb a a = true.
Proof. apply cls_eqb_eq; reflexivity. Qed.

Ltac edge := solve [apply sub_edge; unfold edges; simpl; auto 10].

Lemma issub_subclass a b : issub a b = true -> subclass a b.
Proof.
  destruct a, b; vm_compute; intro H; try discriminate;
    first [ apply sub_refl | apply sub_object | edge
          | solve [apply sub_trans with CInt; edge] ].
Qed.

Lemma issub_refl a : issub a a = true.
Proof. destruct a; reflexivity. Qed.

Lemma issub_object a : issub a CObject = true.
Proof. destruct a; reflexivity. Qed.

Lemma issub_trans a b c : issub a b = true -> issub b c = true -> issub a c = true.
Proof.
  destruct a, b; vm_compute; intro H; try discriminate;
    destruct c; vm_compute; intro H'; try reflexivity; discriminate.
Qed.

Lemma subclass_issub a b : subclass a b -> issub a b = true.
Proof.
  induction 1.
  - apply issub_refl.
  - apply issub_object.
  - unfold edges in H; simpl in H.
    repeat (destruct H as [H|H]; [inversion H; subst; reflexivity|]). contradiction.
  - eapply issub_trans; eauto.
Qed.

(* the model's table is exactly the specification's lattice *)
Theorem issub_iff a b : issub a b = true <-> subclass a b.
Proof. split; [apply issub_subclass | apply subclass_issub]. Qed.

Lemma subclassb_issub a b : subclassb a b = issub a b.
Proof. destruct a, b; reflexivity. Qed.

Theorem subclassb_iff a b : subclassb a b = true <-> subclass a b.
Proof. rewrite subclassb_issub. apply issub_iff. Qed.

(* float -> numbers.Real is "int accepted where float is declared" *)
Lemma check_cls_okb v c : check_cls v c = cls_okb v c.
Proof.
  unfold check_cls, cls_okb, isinstance. rewrite !subclassb_issub.
  (* no value has class numbers.Real itself, so this is a statement about values *)
  destruct v as [| | | | | | ? | ? | ? | ? | ? | ? | u]; try destruct u; destruct c; reflexivity.
Qed.

Lemma cls_okb_iff psem v c : cls_okb v c = true <-> conforms psem v (TCls c).
Proof.
  unfold cls_okb. split.
  - intro H. apply orb_true_iff in H. destruct H as [H|H].
    + apply c_cls. now apply subclassb_iff.
    + apply andb_true_iff in H. destruct H as [H1 H2].
      apply cls_eqb_eq in H1; subst. apply c_int_for_float. now apply subclassb_iff.
  - intro H. inversion H; subst.
    + apply orb_true_iff; left. now apply subclassb_iff.
    + apply orb_true_iff; right. apply andb_true_iff; split; [reflexivity|].
      now apply subclassb_iff.
Qed.

(* isinstance(v, list) etc. determine the shape of the value *)
Ltac shape v :=
  destruct v as [| | | | | | ? | ? | ? | ? | ? | ? | u]; try destruct u;
  vm_compute; intro H; try discriminate; eauto.

Lemma isinstance_list v : isinstance v CList = true -> exists l, v = VList l.
Proof. shape v. Qed.
Lemma isinstance_set v : isinstance v CSet = true -> exists l, v = VSet l.
Proof. shape v. Qed.
Lemma isinstance_dict v : isinstance v CDict = true -> exists l, v = VDict l.
Proof. shape v. Qed.
Lemma isinstance_tuple v : isinstance v CTuple = true -> exists l, v = VTuple l.
Proof. shape v. Qed.
Lemma isinstance_type v : isinstance v CType = true -> exists c, v = VClass c.
Proof. shape v. Qed.

(* ================================================================ Literal *)
Lemma opt_eqb_iff a b : opt_eqb a b = true <-> exists x, a = Some x /\ b = Some x.
Proof.
  destruct a as [x|], b as [y|]; simpl; split; intro H; try discriminate.
  - apply Z.eqb_eq in H; subst; eauto.
  - destruct H as [z [H1 H2]]. inversion H1; inversion H2; subst. apply Z.eqb_refl.
  - destruct H as [z [H1 H2]]. discriminate.
  - destruct H as [z [H1 H2]]. discriminate.
  - destruct H as [z [H1 H2]]. discriminate.
Qed.

Lemma py_eqb_iff v k : py_eqb v k = true <-> py_eq v k.
Proof.
  split.
  - intro H.
    destruct v, k; unfold py_eqb in H;
      try (apply opt_eqb_iff in H; destruct H as [x [H1 H2]]; simpl in H1, H2;
           try discriminate; eapply eq_num; simpl; eauto; fail).
    + constructor.
    + apply Z.eqb_eq in H; subst; constructor.
    + apply Z.eqb_eq in H; subst; constructor.
  - intro H. inversion H; subst; simpl; try reflexivity; try apply Z.eqb_refl.
    assert (E : opt_eqb (num2 v) (num2 (val_of_const k)) = true)
      by (apply opt_eqb_iff; eauto).
    destruct v, k; simpl in *; try discriminate; exact E.
Qed.

Lemma eq_const_py_eqb v k : eq_const v k = py_eqb v k.
Proof. destruct v, k; reflexivity. Qed.

Lemma existsb_same {A} (f g : A -> bool) l : (forall x, f x = g x) -> existsb f l = existsb g l.
Proof. intro H. induction l as [|x l IH]; simpl; [reflexivity|]. now rewrite H, IH. Qed.

(* ================================================================ bounds *)
Lemma bound_okb_iff Rb (R : Z -> Z -> Prop) v b :
  (forall x y, Rb x y = true <-> R x y) ->
  bound_okb Rb v b = true <-> bound_ok R v b.
Proof.
  intro HR. destruct b as [q|]; simpl; [|tauto].
  unfold num_relb, num_rel. destruct (num2 v) as [x|].
  - rewrite HR. split; [eauto|]. intros [y [E H]]. inversion E; subst; auto.
  - split; [discriminate|]. intros [y [E _]]. discriminate.
Qed.

Lemma geb_ge x y : Z.geb x y = true <-> Z.ge x y.
Proof. rewrite Z.geb_le. lia. Qed.
Lemma gtb_gt x y : Z.gtb x y = true <-> Z.gt x y.
Proof. rewrite Z.gtb_lt. lia. Qed.

(* ================================================================ Type[T] *)
Lemma sub_tyb_iff c t : sub_tyb c t = true <-> sub_ty c t.
Proof.
  revert c. induction t using ty_ind'; intro c0; simpl;
    try (split; [discriminate | intro X; inversion X]).
  - split; [constructor | reflexivity].
  - split; [constructor | reflexivity].
  - split; intro X; [constructor; now apply subclassb_iff | inversion X; now apply subclassb_iff].
  - split; intro X; [constructor; now apply subclassb_iff | inversion X; now apply subclassb_iff].
  - rewrite existsb_exists. split.
    + intros [x [Hin Hx]]. constructor. apply Exists_exists. exists x; split; auto.
      rewrite Forall_forall in H. now apply H.
    + intro X. inversion X; subst.
        match goal with HH : Exists _ _ |- _ => apply Exists_exists in HH; destruct HH as [x [Hin Hx]] end.
      exists x; split; auto. rewrite Forall_forall in H. now apply H.
Qed.

(* ================================================================ oracle = specification *)
Lemma forall2b_Forall2 (g : ty -> val -> bool) (P : val -> ty -> Prop) ts :
  Forall (fun t => forall v, g t v = true <-> P v t) ts ->
  forall l, forall2b g ts l = true <-> Forall2 P l ts.
Proof.
  induction 1 as [|t ts Ht _ IH]; intros [|x l]; simpl.
  - split; [constructor | reflexivity].
  - split; [discriminate | intro X; inversion X].
  - split; [discriminate | intro X; inversion X].
  - rewrite andb_true_iff, Ht, IH. split.
    + intros [A B]; constructor; auto.
    + intro X; inversion X; subst; auto.
Qed.

Section WithPredicates.
  Variable psem : Z -> val -> res bool.
  Notation conforms := (conforms psem).
  Notation conformsb := (conformsb psem).
  Notation in_language := (in_language psem).

  Lemma forallb_Forall_conf t (l : list val) :
    (forall v, conformsb t v = true <-> conforms v t) ->
    forallb (conformsb t) l = true <-> Forall (fun x => conforms x t) l.
  Proof.
    intro IH. rewrite forallb_forall, Forall_forall.
    split; intros H x Hx; apply IH; auto.
  Qed.

  Theorem conformsb_iff t : forall v, conformsb t v = true <-> conforms v t.
  Proof.
    induction t using ty_ind'; intro v.
    - simpl; split; [constructor | reflexivity].
    - simpl; split; [constructor | reflexivity].
    - simpl; split; intro X; [constructor; now apply subclassb_iff | inversion X; now apply subclassb_iff].
    - simpl. apply cls_okb_iff.
    - simpl. rewrite existsb_exists. split.
      + intros [x [Hin Hx]]. constructor. apply Exists_exists. exists x; split; auto.
        rewrite Forall_forall in H. now apply H.
      + intro X. inversion X; subst.
        match goal with HH : Exists _ _ |- _ => apply Exists_exists in HH; destruct HH as [x [Hin Hx]] end.
        exists x; split; auto. rewrite Forall_forall in H. now apply H.
    - simpl. rewrite existsb_exists. split.
      + intros [x [Hin Hx]]. constructor. apply Exists_exists. exists x; split; auto.
        now apply py_eqb_iff.
      + intro X. inversion X; subst.
        match goal with HH : Exists _ _ |- _ => apply Exists_exists in HH; destruct HH as [x [Hin Hx]] end.
        exists x; split; auto. now apply py_eqb_iff.
    - (* List *)
      split.
      + intro X. destruct v; simpl in X; try discriminate.
        constructor. now apply forallb_Forall_conf.
      + intro X. inversion X; subst. simpl. now apply forallb_Forall_conf.
    - (* Set *)
      split.
      + intro X. destruct v; simpl in X; try discriminate.
        constructor. now apply forallb_Forall_conf.
      + intro X. inversion X; subst. simpl. now apply forallb_Forall_conf.
    - (* Dict *)
      split.
      + intro X. destruct v; simpl in X; try discriminate.
        constructor. rewrite forallb_forall in X. apply Forall_forall. intros kv Hkv.
        specialize (X kv Hkv). apply andb_true_iff in X. destruct X as [A B].
        split; [now apply IHt1 | now apply IHt2].
      + intro X. inversion X; subst. simpl. apply forallb_forall. intros kv Hkv.
        match goal with HH : Forall _ _ |- _ => rewrite Forall_forall in HH; destruct (HH kv Hkv) as [A B] end.
        apply andb_true_iff; split; [now apply IHt1 | now apply IHt2].
    - (* Tuple *)
      split.
      + intro X. destruct v; simpl in X; try discriminate.
        constructor. now apply (forall2b_Forall2 (fun t' x => conformsb t' x) conforms ts H).
      + intro X. inversion X; subst. simpl.
        now apply (forall2b_Forall2 (fun t' x => conformsb t' x) conforms ts H).
    - (* TupleVar *)
      split.
      + intro X. destruct v; simpl in X; try discriminate.
        constructor. now apply forallb_Forall_conf.
      + intro X. inversion X; subst. simpl. now apply forallb_Forall_conf.
    - (* Type *)
      split.
      + intro X. destruct v; simpl in X; try discriminate.
        constructor. now apply sub_tyb_iff.
      + intro X. inversion X; subst. simpl. now apply sub_tyb_iff.
    - (* Bounded *)
      simpl. rewrite !andb_true_iff.
      rewrite (cls_okb_iff psem), (bound_okb_iff _ Z.ge _ _ geb_ge), (bound_okb_iff _ Z.gt _ _ gtb_gt),
        (bound_okb_iff _ Z.le _ _ Z.leb_le), (bound_okb_iff _ Z.lt _ _ Z.ltb_lt).
      split.
      + intros [[[[A B] C] D] E]. now constructor.
      + intro X. inversion X; subst. tauto.
    - (* Validated *)
      simpl. split.
      + intro X. constructor. destruct (psem p v) as [[|]|]; try discriminate; reflexivity.
      + intro X. inversion X; subst.
        match goal with HH : psem _ _ = _ |- _ => now rewrite HH end.
  Qed.

  (* ============================================================== model vs oracle *)
  Lemma any_res_existsb {A} (f : A -> res bool) (g : A -> bool) l :
    Forall (fun x => forall b, f x = Ok b -> g x = b) l ->
    forall b, any_res f l = Ok b -> existsb g l = b.
  Proof.
    induction 1 as [|x l Hx _ IH]; intros b E; simpl in *.
    - now inversion E.
    - destruct (f x) as [[|]|e] eqn:Fx; try discriminate.
      + rewrite (Hx true eq_refl). now inversion E.
      + rewrite (Hx false eq_refl). simpl. now apply IH.
  Qed.

  Lemma all_res_forallb {A} (f : A -> res bool) (g : A -> bool) l :
    (forall x b, f x = Ok b -> g x = b) ->
    forall b, all_res f l = Ok b -> forallb g l = b.
  Proof.
    intro Hf. induction l as [|x l IH]; intros b E; simpl in *.
    - now inversion E.
    - destruct (f x) as [[|]|e] eqn:Fx; try discriminate.
      + rewrite (Hf x true Fx). simpl. now apply IH.
      + rewrite (Hf x false Fx). now inversion E.
  Qed.

  Lemma all2_res_forall2b {A B} (f : A -> B -> res bool) (g : A -> B -> bool) ts :
    Forall (fun t => forall x b, f t x = Ok b -> g t x = b) ts ->
    forall l b, length l = length ts -> all2_res f ts l = Ok b -> forall2b g ts l = b.
  Proof.
    induction 1 as [|t ts Ht _ IH]; intros [|x l] b L E; simpl in *; try discriminate.
    - now inversion E.
    - destruct (f t x) as [[|]|e] eqn:Fx; try discriminate.
      + rewrite (Ht x true Fx). simpl. apply IH; auto.
      + rewrite (Ht x false Fx). now inversion E.
  Qed.

  Lemma forall2b_length {A B} (g : A -> B -> bool) ts :
    forall l, length l <> length ts -> forall2b g ts l = false.
  Proof.
    induction ts as [|t ts IH]; intros [|x l] L; simpl in *; try reflexivity.
    - congruence.
    - rewrite IH; [apply andb_false_r | congruence].
  Qed.

  Lemma sub_check_sub_tyb c t : forall b, sub_check false c t = Ok b -> sub_tyb c t = b.
  Proof.
    induction t using ty_ind'; intros b E; simpl in *; try discriminate;
      try (inversion E; subst; try reflexivity).
    - now rewrite subclassb_issub.
    - now rewrite subclassb_issub.
    - eapply any_res_existsb; eauto.
  Qed.

  Lemma gate_spec Rneg R v q k r :
    (forall x y, R x y = negb (Rneg x y)) ->
    gate (violates Rneg v q) k = Ok r ->
    (bound_okb R v q = false /\ r = false) \/ (bound_okb R v q = true /\ k = Ok r).
  Proof.
    intros HR E. destruct q as [q|]; simpl in *.
    - unfold cmp, num_relb in *. destruct (num2 v) as [x|]; simpl in E; try discriminate.
      rewrite HR. destruct (Rneg x (num2n q)); simpl in *.
      + left. split; auto. now inversion E.
      + right. auto.
    - right. auto.
  Qed.

  Lemma geb_neg x y : Z.geb x y = negb (Z.ltb x y).
  Proof. rewrite Z.geb_leb. apply Z.leb_antisym. Qed.
  Lemma gtb_neg x y : Z.gtb x y = negb (Z.leb x y).
  Proof. rewrite Z.gtb_ltb. apply Z.ltb_antisym. Qed.
  Lemma leb_neg x y : Z.leb x y = negb (Z.gtb x y).
  Proof. rewrite Z.gtb_ltb. apply Z.leb_antisym. Qed.
  Lemma ltb_neg x y : Z.ltb x y = negb (Z.geb x y).
  Proof. rewrite Z.geb_leb. apply Z.ltb_antisym. Qed.

  Lemma bounded_validate_spec v c ge gt le lt b :
    bounded_validate v c ge gt le lt = Ok b ->
    cls_okb v c && bound_okb Z.geb v ge && bound_okb Z.gtb v gt
      && bound_okb Z.leb v le && bound_okb Z.ltb v lt = b.
  Proof.
    unfold bounded_validate. rewrite check_cls_okb.
    destruct (cls_okb v c); simpl; [|intro E; now inversion E].
    intro E.
    destruct (gate_spec _ _ _ _ _ _ geb_neg E) as [[A B]|[A E1]];
      [rewrite A; now subst|rewrite A; simpl].
    destruct (gate_spec _ _ _ _ _ _ gtb_neg E1) as [[A1 B]|[A1 E2]];
      [rewrite A1; now subst|rewrite A1; simpl].
    destruct (gate_spec _ _ _ _ _ _ leb_neg E2) as [[A2 B]|[A2 E3]];
      [rewrite A2; now subst|rewrite A2; simpl].
    destruct (gate_spec _ _ _ _ _ _ ltb_neg E3) as [[A3 B]|[A3 E4]];
      [rewrite A3; now subst|rewrite A3; simpl].
    now inversion E4.
  Qed.

  Ltac not_instance v :=
    destruct v as [| | | | | | ? | ? | ? | ? | ? | ? | u]; try destruct u;
    try (vm_compute; intros b0 E0; now inversion E0).

  Theorem check_type_conformsb t :
    forall v b, check_type psem false t v = Ok b -> conformsb t v = b.
  Proof.
    induction t using ty_ind'; intros v b E.
    - simpl in *. now inversion E.
    - simpl in *. now inversion E.
    - simpl in *. inversion E. unfold isinstance. now rewrite subclassb_issub.
    - simpl in *. inversion E. symmetry. apply check_cls_okb.
    - (* Union: both branches of the code run the same loop *)
      assert (E' : any_res (fun t' => check_type psem false t' v) ts = Ok b)
        by (destruct k; exact E).
      simpl. eapply (any_res_existsb (fun t' => check_type psem false t' v)); [|exact E'].
      rewrite Forall_forall in *. intros x Hx b0. apply H; auto.
    - simpl in *. inversion E. apply existsb_same. intros k. symmetry. apply eq_const_py_eqb.
    - (* List *)
      simpl in E. destruct (isinstance v CList) eqn:I; simpl in E.
      + destruct (isinstance_list v I) as [l ->]. simpl in *.
        eapply all_res_forallb; [|exact E]. intros x b0. apply IHt.
      + inversion E; subst. destruct v; try reflexivity. vm_compute in I. discriminate.
    - (* Set *)
      simpl in E. destruct (isinstance v CSet) eqn:I; simpl in E.
      + destruct (isinstance_set v I) as [l ->]. simpl in *.
        eapply all_res_forallb; [|exact E]. intros x b0. apply IHt.
      + inversion E; subst. destruct v; try reflexivity. vm_compute in I. discriminate.
    - (* Dict *)
      simpl in E. destruct (isinstance v CDict) eqn:I; simpl in E.
      + destruct (isinstance_dict v I) as [l ->]. simpl in *.
        eapply all_res_forallb; [|exact E]. intros kv b0 F. simpl in F.
        destruct (check_type psem false t1 (fst kv)) as [[|]|e] eqn:K; try discriminate.
        * rewrite (IHt1 _ _ K). simpl. now apply IHt2.
        * rewrite (IHt1 _ _ K). simpl. now inversion F.
      + inversion E; subst. destruct v; try reflexivity. vm_compute in I. discriminate.
    - (* Tuple *)
      simpl in E. destruct (isinstance v CTuple) eqn:I; simpl in E.
      + destruct (isinstance_tuple v I) as [l ->]. simpl in *.
        destruct (Nat.eqb (length l) (length ts)) eqn:L; simpl in E.
        * apply Nat.eqb_eq in L.
          eapply (all2_res_forall2b (fun t' x => check_type psem false t' x)); [|exact L|exact E].
          rewrite Forall_forall in *. intros t' Ht' x b0. apply H; auto.
        * apply Nat.eqb_neq in L. inversion E; subst. now apply forall2b_length.
      + inversion E; subst. destruct v; try reflexivity. vm_compute in I. discriminate.
    - (* TupleVar *)
      simpl in E. destruct (isinstance v CTuple) eqn:I; simpl in E.
      + destruct (isinstance_tuple v I) as [l ->]. simpl in *.
        eapply all_res_forallb; [|exact E]. intros x b0. apply IHt.
      + inversion E; subst. destruct v; try reflexivity. vm_compute in I. discriminate.
    - (* Type *)
      simpl in E. destruct (isinstance v CType) eqn:I; simpl in E.
      + destruct (isinstance_type v I) as [c ->]. simpl in *. now apply sub_check_sub_tyb.
      + inversion E; subst. destruct v; try reflexivity. vm_compute in I. discriminate.
    - (* Bounded *)
      simpl in *. now apply bounded_validate_spec.
    - (* Validated *)
      simpl in *. rewrite E. now destruct b.
  Qed.

  (* THE MAIN THEOREM: whenever the check returns, it returns `conforms` *)
  Theorem check_type_sound_complete t v b :
    check_type psem false t v = Ok b -> (b = true <-> conforms v t).
  Proof.
    intro E. apply check_type_conformsb in E. rewrite <- conformsb_iff. now rewrite E.
  Qed.

  (* ============================================================== totality *)
  Lemma any_res_total {A} (f : A -> res bool) l :
    Forall (fun x => exists b, f x = Ok b) l -> exists b, any_res f l = Ok b.
  Proof.
    induction 1 as [|x l [b Hx] _ [b' IH]]; simpl; eauto.
    rewrite Hx. destruct b; eauto.
  Qed.

  Lemma all_res_total {A} (f : A -> res bool) l :
    (forall x, exists b, f x = Ok b) -> exists b, all_res f l = Ok b.
  Proof.
    intro Hf. induction l as [|x l [b' IH]]; simpl; eauto.
    destruct (Hf x) as [b Hx]. rewrite Hx. destruct b; eauto.
  Qed.

  Lemma all2_res_total {A B} (f : A -> B -> res bool) ts :
    Forall (fun t => forall x, exists b, f t x = Ok b) ts ->
    forall l, exists b, all2_res f ts l = Ok b.
  Proof.
    induction 1 as [|t ts Ht _ IH]; intros [|x l]; simpl; eauto.
    destruct (Ht x) as [b Hx]. rewrite Hx. destruct b; eauto.
  Qed.

  Lemma sub_check_total t : type_arg t -> forall c, exists b, sub_check false c t = Ok b.
  Proof.
    induction t using ty_ind'; intros TA c0; inversion TA; subst; simpl; eauto.
    apply any_res_total. rewrite Forall_forall in *. intros x Hx. apply H; auto.
  Qed.

  Lemma numeric_num2 v c :
    numeric_cls c -> check_cls v c = true -> exists x, num2 v = Some x.
  Proof.
    intros [ -> | [ -> | [ -> | -> ] ] ];
      destruct v as [| | | | | | ? | ? | ? | ? | ? | ? | u]; try destruct u;
      vm_compute; intro H; try discriminate; eauto.
  Qed.

  Lemma bounded_total v c ge gt le lt :
    numeric_cls c -> exists b, bounded_validate v c ge gt le lt = Ok b.
  Proof.
    intro N. unfold bounded_validate. destruct (check_cls v c) eqn:C; simpl; eauto.
    destruct (numeric_num2 v c N C) as [x Hx].
    unfold gate, violates, cmp. rewrite Hx.
    destruct ge, gt, le, lt; simpl;
      repeat match goal with |- context [if ?c then _ else _] => destruct c end; eauto.
  Qed.

  (* WITHIN THE LANGUAGE THE CHECK NEVER RAISES *)
  Theorem check_type_total t :
    in_language t -> forall v, exists b, check_type psem false t v = Ok b.
  Proof.
    induction t using ty_ind'; intros L v; inversion L; subst; simpl; eauto.
    - (* Union *)
      assert (X : exists b, any_res (fun t' => check_type psem false t' v) ts = Ok b).
      { apply any_res_total. rewrite Forall_forall in *. intros x Hx. apply H; auto. }
      destruct k; exact X.
    - destruct (isinstance v CList); simpl; eauto. apply all_res_total. intro x. now apply IHt.
    - destruct (isinstance v CSet); simpl; eauto. apply all_res_total. intro x. now apply IHt.
    - destruct (isinstance v CDict); simpl; eauto. apply all_res_total. intros kv.
      destruct (IHt1 ltac:(assumption) (fst kv)) as [b1 ->]. destruct b1; eauto.
    - destruct (isinstance v CTuple); simpl; eauto.
      destruct (Nat.eqb (length (iter_items v)) (length ts)); simpl; eauto.
      apply (all2_res_total (fun t' x => check_type psem false t' x)).
      rewrite Forall_forall in *. intros t' Ht' x. apply H; auto.
    - destruct (isinstance v CTuple); simpl; eauto. apply all_res_total. intro x. now apply IHt.
    - destruct (isinstance v CType); simpl; eauto. destruct v; eauto. now apply sub_check_total.
    - now apply bounded_total.
  Qed.

  (* both together *)
  Theorem check_type_decides t v :
    in_language t ->
    (check_type psem false t v = Ok true <-> conforms v t) /\
    (check_type psem false t v = Ok false <-> ~ conforms v t).
  Proof.
    intro L. destruct (check_type_total t L v) as [b E].
    pose proof (check_type_sound_complete t v b E) as SC. rewrite E.
    destruct b; (split; split; intro H).
    - apply SC; reflexivity.
    - reflexivity.
    - discriminate.
    - exfalso. apply H. apply SC. reflexivity.
    - discriminate.
    - apply SC in H. discriminate.
    - intro C. apply SC in C. discriminate.
    - reflexivity.
  Qed.

  (* ============================================================== in_languageb *)
  Variable ptotal : Z -> bool.
  Hypothesis ptotal_ok : forall p, ptotal p = true -> total_pred psem p.

  Lemma type_argb_sound t : type_argb t = true -> type_arg t.
  Proof.
    induction t using ty_ind'; simpl; intro E; try discriminate; try constructor.
    rewrite forallb_forall in E. rewrite Forall_forall in *. intros x Hx. apply H; auto.
  Qed.

  Lemma numeric_clsb_sound c : numeric_clsb c = true -> numeric_cls c.
  Proof. unfold numeric_cls. destruct c; vm_compute; intro E; try discriminate; auto. Qed.

  Theorem in_languageb_sound t : in_languageb ptotal t = true -> in_language t.
  Proof.
    induction t using ty_ind'; simpl; intro E; try discriminate; try (constructor; auto; fail).
    - constructor. rewrite forallb_forall in E. rewrite Forall_forall in *. intros x Hx. apply H; auto.
    - apply andb_true_iff in E. destruct E. constructor; auto.
    - constructor. rewrite forallb_forall in E. rewrite Forall_forall in *. intros x Hx. apply H; auto.
    - constructor. now apply type_argb_sound.
    - constructor. now apply numeric_clsb_sound.
  Qed.
End WithPredicates.
